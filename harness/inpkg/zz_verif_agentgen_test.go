//go:build verif && go1.25

package ice

import (
	"fmt"
	"strings"
	"time"
)

// Generator for component "agent": sessions of one or two agents with random topologies and
// schedules (see DESIGN.md §5 C01-C07, C20). All choices derive from the *vRand given.

type vGenSess struct {
	r        *vRand
	emit     func(string) string
	inflight int
	reqA     int // number of requests A has issued so far (canonical ids A#1..)
	reqB     int
	hasB     bool
	o        *vOut
	focus    string   // property id the run is for (VERIF_ARGS focus=Cxx): biases the generator, never restricts soundness
	lens     []int    // payload lengths of the latest write / data ops (what a reader may find queued)
	forms    bool     // this session signals some remote candidates through non-canonical address literals
	tcp      bool     // this session mixes TCP candidates with UDP ones
	fl       []string // the in-flight datagrams as printed by the implementation ("src>dst:…"), for directed scenarios
	blkA     int      // ip id rejected by A's remote IP filter (0 = no filter)
	seq      int      // running number of the directed scenario of this kind (cycles through its variants)
	floods   *int     // floods left in this run (shared by all sessions: a flood and its drain are ~150-1000 lines)
}

// pickForms decides whether the session uses non-canonical literals (IPv4-mapped / expanded IPv6) for a
// minority of its signalled remote candidates.  Never for C01 (clean two-agent sessions).
func (g *vGenSess) pickForms() {
	switch g.focus {
	case "C01":
		g.forms = false
	case "C06":
		g.forms = g.r.chance(1, 2)
	case "":
		g.forms = g.r.chance(1, 5)
	default:
		g.forms = g.r.chance(1, 8)
	}
	if g.forms {
		g.o.stat("sess.forms")
	}
}

// fm: suffix of an addremote op = the literal form the candidate is signalled with; mostly canonical (absent).
// Re-signalling the same candidate draws again, so one address can arrive in both forms, and a mapped-form
// candidate can arrive before or after a peer-reflexive candidate was discovered for its address.
func (g *vGenSess) fm() string {
	if g.forms && g.r.chance(1, 3) {
		g.o.stat("addremote.form1")
		return " 1"
	}
	return ""
}

// pickTCP decides whether the session mixes TCP candidates (tcp4/tcp6, any tcptype) with UDP ones: local TCP
// candidates ride on the same in-memory hub, remote ones are signalled active / passive / simultaneous-open /
// without tcptype, the same ip:port may be used over both transports, and duplicates may differ in the tcptype only.
// Never for C01 (clean two-agent UDP sessions).
func (g *vGenSess) pickTCP() {
	switch g.focus {
	case "C01":
		g.tcp = false
	case "C06":
		g.tcp = g.r.chance(1, 3)
	case "":
		g.tcp = g.r.chance(1, 5)
	default:
		g.tcp = g.r.chance(1, 8)
	}
	if g.tcp {
		g.o.stat("sess.tcp")
	}
}

// tcpCfg: configuration suffix of an agent in a TCP session (tcp4/tcp6 among its network types, mostly)
func (g *vGenSess) tcpCfg() string {
	if g.tcp && !g.r.chance(1, 4) {
		return ",tcp=1"
	}
	return ""
}

func (g *vGenSess) tt() string { return []string{"p", "p", "a", "s", "-"}[g.r.intn(5)] }

// remTail: what follows `<rel>` in an addremote op: nothing / the literal form / form and tcptype
func (g *vGenSess) remTail(tt string) string {
	if tt == "" {
		return g.fm()
	}
	f := 0
	if g.fm() != "" {
		f = 1
	}
	g.o.stat("addremote.tt." + tt)
	return fmt.Sprintf(" %d %s", f, tt)
}

// wantFlood: does this session get a receive-buffer overflow phase?  A minority of focus=C07 sessions, rarely
// elsewhere, never for C01; bounded per run.
func (g *vGenSess) wantFlood() bool {
	if g.floods == nil || *g.floods <= 0 || g.focus == "C01" {
		return false
	}
	den := 15
	if g.focus == "C07" {
		den = 3
	}
	if !g.r.chance(1, den) {
		return false
	}
	*g.floods--
	g.o.stat("phase.flood")
	return true
}

// drain: reads until the reader answers `empty` (or an error), at most max reads
func (g *vGenSess) drain(w string, max int) {
	for i := 0; i < max; i++ {
		res := g.op("read %s", w)
		if !strings.HasPrefix(res, "res=read:") && !strings.HasPrefix(res, "res=short:") {
			return
		}
	}
}

// floodPhase: a stalled reader.  Payload datagrams from `src` (a known remote candidate's address, if the session
// got that far) are handed to w's local candidate `la` without reading, sized just below / at / above what the 1 MB
// receive buffer takes (each queued datagram costs len+2 bytes), in one go or in two parts with reads in between;
// then the reader drains the queue (mostly completely).
func (g *vGenSess) floodPhase(w string, la, src int) {
	r := g.r
	g.drain(w, 40) // start from an empty queue (mostly)
	l := []int{8190, 8190, 4000, 4000, 1000}[r.intn(5)]
	fit := 1000000 / (l + 2)
	n := fit + []int{-1, 0, 1, 1, 7, 100}[r.intn(6)]
	switch r.intn(3) {
	case 0: // in one go
		g.op("flood %s %d %d %d %d", w, la, src, l, n)
	case 1: // two parts, some reads in between: the freed room is taken again
		k := 1 + r.intn(n-1)
		g.op("flood %s %d %d %d %d", w, la, src, l, k)
		for i := 0; i < r.intn(6); i++ {
			g.readOp(w)
		}
		g.op("flood %s %d %d %d %d", w, la, src, l, n-k)
	default: // up to the brim, then single payloads of sizes around the room that is left
		g.op("flood %s %d %d %d %d", w, la, src, l, fit)
		room := 1000000 - fit*(l+2) - 2
		for _, d := range []int{room + 1, room, 0, 1} {
			if d >= 0 {
				g.op("data %s %d %d %d 0", w, la, src, d)
			}
		}
	}
	if r.chance(1, 4) {
		g.op("adv %d", []int{50, 1000}[r.intn(2)])
	}
	if r.chance(5, 6) {
		g.drain(w, fit+20)
	} else {
		g.drain(w, r.intn(fit)) // a partial drain: the session goes on with a half-full buffer
		g.op("data %s %d %d %d 0", w, la, src, l)
	}
	g.op("data %s %d %d %d 0", w, la, src, 1+r.intn(200))
	g.readOp(w)
}

func (g *vGenSess) sawLen(n int) {
	g.lens = append(g.lens, n)
	if len(g.lens) > 6 {
		g.lens = g.lens[1:]
	}
}

// readOp: Conn.Read, mostly into a full-size (receiveMTU) buffer; a minority of reads use a caller buffer of
// exactly / one less than / half the size of a recently sent datagram, 1, 0, or far more than any datagram.
func (g *vGenSess) readOp(w string) {
	r := g.r
	den := 5
	if g.focus == "C07" {
		den = 2
	}
	if !r.chance(1, den) {
		g.op("read %s", w)
		return
	}
	l := 100
	if len(g.lens) > 0 {
		l = g.lens[r.intn(len(g.lens))]
	}
	c := l
	switch r.intn(7) {
	case 0, 1:
		if l > 0 {
			c = l - 1
		}
	case 2:
		c = 1
	case 3:
		c = 0
	case 4:
		c = 65536
	case 5:
		c = l / 2
	}
	g.o.stat("read.cap")
	g.op("read %s %d", w, c)
}

func (g *vGenSess) op(format string, a ...any) string {
	res := g.emit("agent " + fmt.Sprintf(format, a...))
	// track the in-flight count and the issued transaction ids from the implementation's own output
	if i := strings.LastIndex(res, ";out["); i >= 0 {
		body := strings.TrimSuffix(res[i+5:], "]")
		if body != "" {
			for _, d := range strings.Split(body, "|") {
				g.inflight++
				g.fl = append(g.fl, d)
				if strings.Contains(d, ":REQ:A#") {
					g.reqA++
				}
				if strings.Contains(d, ":REQ:B#") {
					g.reqB++
				}
			}
		}
	}
	return res
}

func (g *vGenSess) cfg(letter string, lite bool, renom bool) string {
	r := g.r
	parts := []string{}
	add := func(k string, vals ...string) {
		if v := vals[r.intn(len(vals))]; v != "" {
			parts = append(parts, k+"="+v)
		}
	}
	add("max", "", "", "", "", "1", "2", "3")
	if lite {
		add("disc", "", "0", "0", "1000") // an EXPLICIT zero disables the timeout, also for the lite defaults
	} else {
		add("disc", "", "", "", "", "", "", "0", "1000", "3000")
	}
	add("fail", "", "", "", "", "", "", "0", "2000", "4000")
	add("ka", "", "", "", "0", "300", "1000")
	add("ci", "", "50", "100", "200")
	add("hw", "", "", "", "100")
	add("sw", "", "0", "500")
	add("pw", "", "0", "1000")
	add("rw", "", "0", "2000")
	add("ucp", "", "", "1")
	if lite {
		parts = append(parts, "lite=1")
	}
	if renom {
		parts = append(parts, "renom=1")
		if letter == "A" && r.chance(1, 3) {
			parts = append(parts, "na=1") // the session uses a custom nomination attribute type
		}
	}
	if r.chance(1, 6) || (g.focus == "C06" && r.chance(1, 4)) {
		b := 1 + r.intn(30)
		parts = append(parts, fmt.Sprintf("blk=%d", b))
		if letter == "A" {
			g.blkA = b
		}
	}
	tbs := []string{"0", "1", "2", "18446744073709551615", "18446744073709551614", "4242", "4243"}
	tb := tbs[r.intn(len(tbs))]
	if r.chance(1, 2) {
		tb = fmt.Sprint(r.next())
	}
	parts = append(parts, "tb="+tb, "u=u"+letter+"0", "p=p"+letter+"0")
	return strings.Join(parts, ",")
}

func vAgentGen(o *vOut, r *vRand, thorough bool, args []string, emit func(string) string) {
	n := 60
	budget := 25 * time.Second
	if thorough {
		n = 2500
		budget = 7 * time.Minute
	}
	focus := ""
	for _, a := range args {
		if strings.HasPrefix(a, "focus=") {
			focus = a[6:]
		}
	}
	t0 := time.Now()
	floods := 6 // per run: a flood and its drain are ~150-1000 lines
	if thorough {
		floods = 120
	}
	nSupersede := r.intn(24)
	nRenomDir := r.intn(18)
	nAuto := r.intn(20)
	for i := 0; i < n && time.Since(t0) < budget; i++ {
		g := &vGenSess{r: r.fork(), emit: emit, o: o, focus: focus, floods: &floods}
		singles := 3 // out of 10
		switch focus {
		case "C01":
			singles = 0
		case "C02", "C03":
			singles = 6
		case "C05", "C20":
			singles = 2
		}
		switch {
		case (focus == "C20" && i%5 == 2) || ((focus == "C01" || focus == "C03") && i%10 == 5):
			// directed renomination scenarios, cycled (not drawn): every variant occurs in every quick run
			g.seq = nRenomDir
			nRenomDir++
			g.renomDirected()
		case (focus == "C20" && i%5 == 3) || ((focus == "C03" || focus == "C04") && i%10 == 7) || (focus != "C01" && focus != "C20" && g.r.chance(1, 30)):
			// automatic renomination (never for C01): directed, the variants are cycled
			g.seq = nAuto
			nAuto++
			g.autoRenom()
		case focus == "C20" && g.r.chance(1, 4):
			g.renomExchange()
		case ((focus == "C03" || focus == "C06") && g.r.chance(1, 3)) || ((focus == "C20" || focus == "C07") && g.r.chance(1, 6)) || (focus == "" && g.r.chance(1, 30)):
			g.seq = nSupersede
			nSupersede++
			g.prflxSelSupersede()
		case (focus == "C20" && g.r.chance(1, 4)) || (focus == "" && g.r.chance(1, 25)) || (focus == "C06" && g.r.chance(1, 10)):
			g.renomPrflx()
		case g.r.intn(10) < singles:
			g.single()
		default:
			g.double()
		}
	}
	emit("agent end")
}

var vPrios = []int{2130706431, 2130706430, 1694498815, 1862270975, 16777215, 100, 1}

// netFor: the network index of an address id in a session whose IP family is net0 (ids from vTCPBase on are TCP)
func netFor(net0, addr int) int {
	if addr >= vTCPBase {
		return net0%2 + 2
	}
	return net0 % 2
}

// locTT / remTT: tcptype tokens for a candidate at this address id: none for UDP ids
func (g *vGenSess) locTT(addr int) string {
	if addr >= vTCPBase {
		return " " + g.tt()
	}
	return ""
}

func (g *vGenSess) remTT(addr int) string {
	if addr >= vTCPBase {
		return g.remTail(g.tt())
	}
	return g.fm()
}

func ttTok(tt string) string {
	if tt == "" {
		return ""
	}
	return " " + tt
}

func (g *vGenSess) prio() int {
	if g.r.chance(1, 4) {
		return vPrios[0] // equal priorities on purpose
	}
	return vPrios[g.r.intn(len(vPrios))]
}

// double: two real agents. A's locals live at ip 1..3, B's at ip 11..13 (slot 0); NAT-mapped addresses at ip 21..
func (g *vGenSess) double() {
	r := g.r
	g.hasB = true
	liteB := (r.chance(1, 8) || (g.focus == "C04" && r.chance(1, 4))) && g.focus != "C01" // C01 is about two full agents (lite: C03)
	renom := r.chance(1, 4) || (g.focus == "C20" && r.chance(3, 4))
	g.o.stat("sess.double")
	g.pickForms()
	g.pickTCP()
	// a minority of the renomination sessions (never for C01) lets the controlling agent renominate by itself; now and then the
	// automatic option is on without WithRenomination (nothing may be issued then)
	auto := ""
	if g.focus != "C01" && ((renom && r.chance(1, 4)) || (!renom && r.chance(1, 25))) {
		auto = fmt.Sprintf(",auto=%d", []int{0, 300, 600, 1000}[r.intn(4)])
		g.o.stat("sess.double.auto")
	}
	g.op("new %s%s%s %s%s", g.cfg("A", false, renom), auto, g.tcpCfg(), g.cfg("B", liteB, false), g.tcpCfg())
	na, nb := 1+r.intn(3), 1+r.intn(3)
	if liteB {
		g.o.stat("sess.liteB")
	}
	type lc struct {
		addr, prio, net int
		tt              string // "" = a UDP candidate (no tcptype token in its ops)
	}
	var la, lb []lc
	net0 := 0
	if r.chance(1, 6) {
		net0 = 1
	}
	mk := func(k int) []lc {
		c := lc{k, g.prio(), net0, ""}
		if g.tcp && r.chance(1, 2) {
			// a TCP candidate at this ip:port (transport-tagged id) …
			t := lc{vTCPBase + k, g.prio(), net0 + 2, g.tt()}
			if r.chance(1, 3) {
				return []lc{c, t} // … next to the UDP candidate on the same ip:port
			}
			return []lc{t}
		}
		return []lc{c}
	}
	for i := 0; i < na; i++ {
		la = append(la, mk(16*(1+i))...)
	}
	for i := 0; i < nb; i++ {
		lb = append(lb, mk(16*(11+i))...)
	}
	na, nb = len(la), len(lb)
	// topology
	natA := -1
	natMapped := 16 * 21
	if r.chance(1, 4) {
		natA = r.intn(na)
		natMapped += la[natA].addr / vTCPBase * vTCPBase
		g.op("nat %d %d", la[natA].addr, natMapped)
		g.o.stat("topo.nat")
	}
	for i := range la {
		for j := range lb {
			if r.chance(1, 5) {
				g.op("block %d %d", la[i].addr, lb[j].addr)
				g.o.stat("topo.block")
			}
			if r.chance(1, 5) {
				g.op("block %d %d", lb[j].addr, la[i].addr)
			}
		}
	}
	// steps to interleave: local adds, signalling, start
	type step func()
	var steps []step
	for _, c := range la {
		c := c
		steps = append(steps, func() { g.op("addlocal A 1 %d %d %d -%s", c.net, c.addr, c.prio, ttTok(c.tt)) })
	}
	for _, c := range lb {
		c := c
		steps = append(steps, func() { g.op("addlocal B 1 %d %d %d -%s", c.net, c.addr, c.prio, ttTok(c.tt)) })
	}
	// the tcptype a candidate is signalled with: its own, sometimes another one (a duplicate that differs in the
	// tcptype only when it is signalled again)
	sigTT := func(c lc) string {
		if c.tt != "" && r.chance(1, 4) {
			return g.tt()
		}
		return c.tt
	}
	sigA := func(i int) { // tell B about A's candidate i
		c := la[i]
		if i == natA {
			switch r.intn(3) {
			case 0: // signalled as srflx at the mapped address
				g.op("addremote B 2 %d %d %d %d%s", c.net, natMapped, g.prio(), c.addr%vTCPBase, g.remTail(sigTT(c)))
			case 1: // host address (unreachable form) only: B must discover the prflx
				g.op("addremote B 1 %d %d %d -%s", c.net, c.addr, c.prio, g.remTail(sigTT(c)))
			default:
			}
			return
		}
		g.op("addremote B 1 %d %d %d -%s", c.net, c.addr, c.prio, g.remTail(sigTT(c)))
	}
	sigB := func(j int) {
		c := lb[j]
		g.op("addremote A 1 %d %d %d -%s", c.net, c.addr, c.prio, g.remTail(sigTT(c)))
	}
	for i := range la {
		i := i
		if !r.chance(1, 8) {
			steps = append(steps, func() { sigA(i) })
		}
	}
	for j := range lb {
		j := j
		if !r.chance(1, 8) {
			steps = append(steps, func() { sigB(j) })
		}
	}
	roleA, roleB := 1, 0
	rolePick := r.intn(8)
	if g.focus == "C05" && r.chance(1, 2) {
		rolePick = r.intn(2) // same-role starts
	}
	switch rolePick {
	case 0:
		roleA, roleB = 1, 1
		g.o.stat("sess.bothcontrolling")
	case 1:
		roleA, roleB = 0, 0
		g.o.stat("sess.bothcontrolled")
	case 2:
		roleA, roleB = 0, 1
	}
	steps = append(steps, func() { g.op("start A %d uB0 pB0", roleA) })
	steps = append(steps, func() { g.op("start B %d uA0 pA0", roleB) })
	// shuffle with a bias to keep locals first
	for i := len(steps) - 1; i > 0; i-- {
		if r.chance(2, 3) {
			j := r.intn(i + 1)
			steps[i], steps[j] = steps[j], steps[i]
		}
	}
	gen := 0
	nsteps := 40 + r.intn(160)
	si := 0
	for k := 0; k < nsteps; k++ {
		if si < len(steps) && r.chance(1, 2) {
			steps[si]()
			si++
			continue
		}
		g.randomAction(&gen, la[0].addr, lb[0].addr, net0)
	}
	for ; si < len(steps); si++ {
		steps[si]()
	}
	// fair, loss-free suffix
	rounds := 6 + r.intn(30)
	advs := []int{20, 50, 100, 200, 400}
	if g.focus == "C01" {
		// long enough for every acceptance wait and keepalive interval, so that the convergence clause of the
		// C01 monitor applies (it needs max wait + max keepalive + 1 s of fair, loss-free time)
		rounds = 25 + r.intn(20)
		advs = []int{100, 200, 200, 400, 400}
	}
	for i := 0; i < rounds; i++ {
		g.op("adv %d", advs[r.intn(5)])
		for g.inflight > 0 {
			g.op("deliver 0")
			g.inflight--
		}
	}
	g.op("mark fairend")
	// late signalling of everything that was withheld (signalled-after-prflx order), then more fair rounds
	if r.chance(1, 2) {
		for i := range la {
			sigA(i)
		}
		for j := range lb {
			sigB(j)
		}
		for i := 0; i < 4+r.intn(8); i++ {
			g.op("adv %d", []int{50, 100, 200}[r.intn(3)])
			for g.inflight > 0 {
				g.op("deliver 0")
				g.inflight--
			}
		}
	}
	// a stalled reader on B (or A): more payload than the receive buffer takes
	if g.wantFlood() {
		if r.chance(2, 3) {
			g.floodPhase("B", lb[0].addr, la[0].addr)
		} else {
			g.floodPhase("A", la[0].addr, lb[0].addr)
		}
	}
	// renomination phase: values in increasing, decreasing and repeated order, arbitrary delivery order
	if renom && r.chance(2, 3) {
		g.o.stat("phase.renom")
		v := 1 + r.intn(3)
		for i := 0; i < 2+r.intn(5); i++ {
			g.op("renom A %d %d %d", la[r.intn(len(la))].addr, r.intn(nb), v)
			switch r.intn(4) {
			case 0:
				v++
			case 1:
				if v > 1 {
					v--
				}
			case 2:
				v += 2
			}
			for k := 0; k < r.intn(4) && g.inflight > 0; k++ {
				g.op("deliver %d", r.intn(g.inflight))
				g.inflight--
			}
			if r.chance(1, 3) {
				g.op("adv %d", []int{10, 100, 300}[r.intn(3)])
			}
		}
		for i := 0; i < 3; i++ {
			for g.inflight > 0 {
				g.op("deliver 0")
				g.inflight--
			}
			g.op("adv 100")
		}
	}
	if r.chance(1, 3) {
		wl := 1 + r.intn(1200)
		g.sawLen(wl)
		g.op("write A %d 0", wl)
		for g.inflight > 0 {
			g.op("deliver 0")
			g.inflight--
		}
		g.readOp("B")
	}
	// liveness phase: silence in steps around the thresholds, traffic resuming at some point
	if r.chance(1, 2) {
		g.o.stat("phase.liveness")
		for i := 0; i < 3+r.intn(12); i++ {
			g.op("adv %d", []int{100, 500, 999, 1000, 1001, 2000, 2999, 3001, 5000, 5001, 10000}[r.intn(11)])
			switch r.intn(4) {
			case 0:
				for g.inflight > 0 {
					g.op("deliver 0")
					g.inflight--
				}
			case 1:
				for g.inflight > 0 {
					g.op("drop 0")
					g.inflight--
				}
			}
		}
	}
	// silence ladder for a lite controlled agent: nothing is delivered any more while the clock climbs in steps over
	// every liveness threshold (lite defaults: disconnected 10 s, failed 25 s; explicit zeros disable)
	if liteB && (g.focus == "C04" || r.chance(1, 2)) {
		g.o.stat("phase.silenceladder")
		for i := 0; i < 18; i++ {
			g.op("adv %d", []int{2500, 2500, 5000}[r.intn(3)])
			for g.inflight > 0 {
				g.op("drop 0")
				g.inflight--
			}
		}
	}
	if r.chance(1, 3) {
		g.op("close A")
		g.op("write A 10 0")
		g.op("adv 100")
	}
}

func (g *vGenSess) randomAction(gen *int, addrA, addrB, net0 int) {
	r := g.r
	x := r.intn(100)
	switch g.focus {
	case "C01":
		// clean sessions: no forged traffic, no credential games; deliver / time / loss / duplication only
		if x >= 72 && x < 95 || x >= 96 {
			x = r.intn(72)
		}
	case "C02":
		if r.chance(1, 3) {
			x = 85 // inject
		}
	case "C07":
		if r.chance(1, 3) {
			x = 72 + r.intn(19) // write / read / writepair / data
			if x >= 83 && x < 88 {
				x = 89
			}
		}
	case "C04":
		if r.chance(1, 6) {
			x = 99
		}
	case "C06":
		if r.chance(1, 5) {
			x = 97 // trickle remote candidates (duplicates, other types, prflx supersession)
		}
	}
	switch {
	case x < 40:
		if g.inflight > 0 {
			k := 0
			if r.chance(1, 3) {
				k = r.intn(g.inflight)
			}
			g.op("deliver %d", k)
			g.inflight--
		} else {
			g.op("adv %d", []int{1, 10, 50, 200}[r.intn(4)])
		}
	case x < 60:
		g.op("adv %d", []int{1, 10, 50, 50, 100, 100, 200, 200, 500, 1000}[r.intn(10)])
	case x < 67:
		if g.inflight > 0 {
			g.op("drop %d", r.intn(g.inflight))
			g.inflight--
		}
	case x < 72:
		if g.inflight > 0 {
			g.op("dup %d", r.intn(g.inflight))
		}
	case x < 77:
		w := "A"
		if g.hasB && r.chance(1, 2) {
			w = "B"
		}
		sl := 0
		if r.chance(1, 6) {
			sl = 1
		}
		wl := []int{0, 1, 19, 20, 100, 1200, 8000}[r.intn(7)]
		if sl == 0 {
			g.sawLen(wl)
		} else {
			wl += r.intn(8) // the first bytes of a STUN-looking payload vary with its length (vPayload)
		}
		g.op("write %s %d %d", w, wl, sl)
	case x < 80:
		w := "A"
		if g.hasB && r.chance(1, 2) {
			w = "B"
		}
		g.readOp(w)
	case x < 83:
		w := "A"
		if g.hasB && r.chance(1, 2) {
			w = "B"
		}
		g.op("writepair %s %d %d 0", w, 1+r.intn(6), 1+r.intn(100))
	case x < 88:
		g.inject(addrA, addrB, net0)
	case x < 91:
		// application data from known / unknown sources
		w, la, src := "A", addrA, addrB
		if g.hasB && r.chance(1, 2) {
			w, la, src = "B", addrB, addrA
		}
		switch r.intn(4) {
		case 0:
			src = 16 * (25 + r.intn(4)) // unknown host
		case 1:
			src += 1 + r.intn(3) // the known peer's IP, another port (same 256-port block)
		}
		sl := 0
		if r.chance(1, 8) {
			sl = 1
		}
		dl := 1 + r.intn(500)
		if sl == 0 {
			g.sawLen(dl)
		}
		g.op("data %s %d %d %d %d", w, la, src, dl, sl)
	case x < 95:
		g.op("renom A %d %d %d", addrA, r.intn(3), r.intn(6))
	case x < 96:
		// one-sided or two-sided restart with re-signalling
		*gen++
		g.o.stat("restart")
		ua, pa := fmt.Sprintf("uA%d", *gen), fmt.Sprintf("pA%d", *gen)
		g.op("restart A %s %s", ua, pa)
		if g.hasB && r.chance(2, 3) {
			ub, pb := fmt.Sprintf("uB%d", *gen), fmt.Sprintf("pB%d", *gen)
			g.op("restart B %s %s", ub, pb)
			g.op("addlocal B 1 %d %d %d -%s", netFor(net0, addrB), addrB, g.prio(), g.locTT(addrB))
			g.op("creds B %s %s", ua, pa)
			g.op("creds A %s %s", ub, pb)
			g.op("addlocal A 1 %d %d %d -%s", netFor(net0, addrA), addrA, g.prio(), g.locTT(addrA))
			g.op("addremote A 1 %d %d %d -%s", netFor(net0, addrB), addrB, g.prio(), g.remTT(addrB))
			g.op("addremote B 1 %d %d %d -%s", netFor(net0, addrA), addrA, g.prio(), g.remTT(addrA))
		} else {
			g.op("addlocal A 1 %d %d %d -%s", netFor(net0, addrA), addrA, g.prio(), g.locTT(addrA))
			if g.hasB {
				g.op("creds B %s %s", ua, pa)
				g.op("creds A uB0 pB0")
				g.op("addremote A 1 %d %d %d -%s", netFor(net0, addrB), addrB, g.prio(), g.remTT(addrB))
			}
		}
	case x < 97:
		w := "A"
		if g.hasB && r.chance(1, 2) {
			w = "B"
		}
		g.op("creds %s %s %s", w, []string{"uB0", "uX", "_"}[r.intn(3)], []string{"pB0", "pX", "_"}[r.intn(3)])
	case x < 98:
		ta := 16*(11+r.intn(4)) + r.intn(2)
		if g.tcp && r.chance(1, 2) {
			ta += vTCPBase // the same pool of ip:port over TCP: duplicates that differ in transport / tcptype only
		}
		g.op("addremote A %d %d %d %d %s%s", 1+r.intn(4), netFor(net0, ta), ta, g.prio(), []string{"-", "-", "0", "160"}[r.intn(4)], g.remTT(ta))
	default:
		if r.chance(1, 8) {
			g.op("adv %d", 2000+r.intn(30000))
		} else {
			g.op("adv %d", 20)
		}
	}
}

// inject: crafted STUN towards A (or B) — correct, nearly-correct and hostile.
func (g *vGenSess) inject(addrA, addrB, net0 int) {
	r := g.r
	w, la, src, lu, ru, lp, rp, nreq := "A", addrA, addrB, "uA0", "uB0", "pA0", "pB0", g.reqA
	if g.hasB && r.chance(1, 3) {
		w, la, src, lu, ru, lp, rp, nreq = "B", addrB, addrA, "uB0", "uA0", "pB0", "pA0", g.reqB
	}
	if r.chance(1, 4) {
		src = 16*(25+r.intn(3)) + r.intn(2) // unknown source
	}
	cls := []int{0, 0, 0, 2, 2, 1, 3}[r.intn(7)]
	spec := []string{fmt.Sprintf("cls=%d", cls)}
	if r.chance(1, 12) {
		spec = append(spec, "m=3")
	}
	tid := fmt.Sprintf("x%d", r.intn(1000))
	if (cls == 2 || cls == 3) && nreq > 0 && r.chance(3, 4) {
		k := nreq - r.intn(min(nreq, 4))
		tid = fmt.Sprintf("%s#%d", w, k)
	}
	spec = append(spec, "tid="+tid)
	user := lu + ":" + ru
	switch r.intn(8) {
	case 0:
		user = ru + ":" + lu
	case 1:
		user = lu + ":uX"
	case 2:
		user = "-"
	case 3:
		user = "uX:" + ru
	case 4:
		// nearly right: the expected value with something appended / cut off / without the remote part
		user = []string{lu + ":" + ru + "x", lu + ":" + ru + ":" + ru, lu + ":" + ru[:len(ru)-1], lu + ":", lu, ":" + ru, lu + ru}[r.intn(7)]
	}
	key := lp
	if cls == 2 || cls == 3 {
		key = rp
	}
	switch r.intn(8) {
	case 0:
		key = "-"
	case 1:
		key = "pX"
	case 2:
		if key == lp {
			key = rp
		} else {
			key = lp
		}
	}
	spec = append(spec, "user="+user, "key="+key)
	if r.chance(2, 3) {
		spec = append(spec, fmt.Sprintf("prio=%d", g.prio()))
	}
	if r.chance(1, 3) {
		spec = append(spec, "uc=1")
	}
	tbs := []string{"0", "1", "4242", "4243", "9223372036854775807", "9223372036854775808", "18446744073709551615"}
	switch r.intn(9) {
	case 8, 7:
		if g.focus == "C05" || r.chance(1, 3) {
			// both role attributes in one message, in either order, with independent tie-breakers
			spec = append(spec, "role="+[]string{"cd", "dc"}[r.intn(2)], "tb="+tbs[r.intn(len(tbs))], "tb2="+tbs[r.intn(len(tbs))])
		}
	case 0, 1:
		spec = append(spec, "role=c", fmt.Sprintf("tb=%s", tbs[r.intn(len(tbs))]))
	case 2, 3:
		spec = append(spec, "role=d", fmt.Sprintf("tb=%s", tbs[r.intn(len(tbs))]))
	}
	switch 9 {
	case 0:
		spec = append(spec, "role=c", fmt.Sprintf("tb=%s", []string{"0", "1", "4242", "4243", "18446744073709551615"}[r.intn(5)]))
	case 1:
		spec = append(spec, "role=d", fmt.Sprintf("tb=%s", []string{"0", "1", "4242", "4243", "18446744073709551615"}[r.intn(5)]))
	}
	if r.chance(1, 5) {
		spec = append(spec, fmt.Sprintf("nom=%d", r.intn(5)))
	}
	if cls == 3 {
		spec = append(spec, "err=487")
	}
	if r.chance(1, 10) {
		spec = append(spec, "fp=0")
	}
	g.o.stat(fmt.Sprintf("inject.cls%d", cls))
	g.op("inject %s %d %d %s", w, la, src, strings.Join(spec, ","))
}

// single: one real agent; the peer is played by the generator (injections with the right credentials).
func (g *vGenSess) single() {
	r := g.r
	g.o.stat("sess.single")
	lite := r.chance(1, 5) || (g.focus == "C04" && r.chance(1, 4))
	g.pickForms()
	g.pickTCP()
	g.op("new %s%s -", g.cfg("A", lite, r.chance(1, 3)), g.tcpCfg())
	net0 := 0
	addrA := 16
	if r.chance(1, 4) {
		addrA = 18 // slot 2 = port 65535, the largest port
	}
	tbase := 0 // the peer's candidates live on the transport of A's first local candidate
	if g.tcp && r.chance(1, 2) {
		addrA, tbase = vTCPBase+16, vTCPBase
		if r.chance(1, 3) {
			g.op("addlocal A 1 %d %d %d -", net0, 16, g.prio()) // the same ip:port over UDP as well
		}
	}
	g.op("addlocal A 1 %d %d %d -%s", netFor(net0, addrA), addrA, g.prio(), g.locTT(addrA))
	if r.chance(1, 2) {
		a2 := 32
		if g.tcp && r.chance(1, 2) {
			a2 += vTCPBase
		}
		g.op("addlocal A 1 %d %d %d -%s", netFor(net0, a2), a2, g.prio(), g.locTT(a2))
	}
	if g.blkA != 0 && r.chance(2, 3) {
		// candidates at the filtered address, signalled through the plain AND the IPv4-mapped literal, on two ports
		g.op("addremote A 1 0 %d %d - 1", 16*g.blkA, g.prio())
		g.op("addremote A 1 0 %d %d -", 16*g.blkA+1, g.prio())
		g.op("addremote A %d 0 %d %d 0 1", []int{2, 4}[r.intn(2)], 16*g.blkA+2, g.prio())
	}
	nrem := 1 + r.intn(3)
	for j := 0; j < nrem; j++ {
		if r.chance(3, 4) {
			ra := tbase + 16*(11+j)
			g.op("addremote A %d %d %d %d %s%s", []int{1, 1, 2, 4}[r.intn(4)], netFor(net0, ra), ra, g.prio(), []string{"-", "0"}[r.intn(2)], g.remTT(ra))
			if tbase != 0 && r.chance(1, 3) {
				// the same candidate again with another tcptype, or over UDP
				if r.chance(1, 2) {
					g.op("addremote A 1 %d %d %d -%s", netFor(net0, ra), ra, g.prio(), g.remTT(ra))
				} else {
					g.op("addremote A 1 %d %d %d -%s", net0, ra-tbase, g.prio(), g.fm())
				}
			}
		}
	}
	role := r.intn(2)
	if lite {
		role = 0
	}
	g.op("start A %d uB0 pB0", role)
	gen := 0
	n := 30 + r.intn(120)
	for k := 0; k < n; k++ {
		switch x := r.intn(10); {
		case x < 4:
			g.peerAct(addrA, net0, nrem, role)
		case x < 5:
			g.inject(addrA, 16*(11+r.intn(nrem)), net0)
		default:
			g.randomAction(&gen, addrA, 16*(11+r.intn(nrem)), net0)
		}
		if k == n/2 && g.wantFlood() {
			g.floodPhase("A", addrA, tbase+16*11)
		}
	}
}

// peerAct: a well-behaved (or slightly misbehaving) peer answering A's outstanding requests and sending checks.
func (g *vGenSess) peerAct(addrA, net0, nrem, roleA int) {
	r := g.r
	src := 16 * (11 + r.intn(nrem))
	if r.chance(1, 2) && g.reqA > 0 {
		// success response to one of the latest requests, from the right (or wrong) address
		k := g.reqA - r.intn(min(g.reqA, 3))
		g.op("inject A %d %d cls=2,tid=A#%d,key=pB0", addrA, src, k)
		return
	}
	peerRole := "d"
	if roleA == 0 {
		peerRole = "c"
	}
	spec := fmt.Sprintf("cls=0,tid=x%d,user=uA0:uB0,key=pA0,prio=%d,role=%s,tb=%d", 2000+r.intn(100000), g.prio(), peerRole, 77+r.intn(3))
	if roleA == 0 && r.chance(1, 3) {
		spec += ",uc=1"
	}
	if roleA == 0 && r.chance(1, 6) {
		spec += fmt.Sprintf(",nom=%d", 1+r.intn(6))
	}
	g.op("inject A %d %d %s", addrA, src, spec)
}

// flop issues deliver/drop for the in-flight datagram at index k of g.fl (the hub removes it before the
// op's own emissions are appended) and keeps g.fl / g.inflight in step.
func (g *vGenSess) flop(kind string, k int) {
	g.fl = append(g.fl[:k:k], g.fl[k+1:]...)
	g.inflight--
	g.op("%s %d", kind, k)
}

// prflxSelSupersede (directed): the controlled agent B learns the controlling agent's SECOND address only
// as a peer-reflexive candidate, through a renomination that arrives from it (deferred: the pair is not
// valid yet); B has one or two local candidates, so the prflx remote sits in one or two pairs.  The
// signalled candidate for that address then supersedes the prflx one at a chosen moment: while the deferred
// nomination is still waiting for B's own check, or after B selected the prflx pair.  Selection, pair ids,
// states, statistics and the deferred nomination value must survive the supersession, and only the pair
// that was checked and nominated may be selected.
func (g *vGenSess) prflxSelSupersede() {
	r := g.r
	g.hasB = true
	g.fl = nil
	g.o.stat("sess.prflxsupersede")
	if g.focus == "C06" {
		g.pickForms()
	}
	g.op("new renom=1,tb=9,u=uA0,p=pA0%s tb=5,u=uB0,p=pB0%s", []string{"", ",ka=0", ",ci=50", ",na=1", ",na=1,ka=0"}[r.intn(5)], []string{"", ",ucp=1", ",pw=0"}[r.intn(3)])
	x1, x2, y1, y2 := 16, 32, 176, 192
	// the variants are cycled, not drawn: (moment of the supersession) x (B's locals: one / two, nominated pair first or last)
	variant, shape := g.seq%4, (g.seq/4)%3
	twoB, y2first := shape != 0, shape == 2
	p1, p2 := 2130706431, []int{2130706430, 100, 2130706431}[r.intn(3)]
	g.op("addlocal A 1 0 %d %d -", x1, p1)
	g.op("addlocal A 1 0 %d %d -", x2, p2)
	// the order of B's locals decides whether the nominated pair is the first or the last sibling in the checklist
	if twoB && y2first {
		g.op("addlocal B 1 0 %d %d -", y2, g.prio())
		g.op("addlocal B 1 0 %d %d -", y1, g.prio())
	} else {
		g.op("addlocal B 1 0 %d %d -", y1, g.prio())
		if twoB {
			g.op("addlocal B 1 0 %d %d -", y2, g.prio())
		}
	}
	g.op("addremote A 1 0 %d %d -", y1, g.prio())
	g.op("addremote B 1 0 %d %d -", x1, p1)
	g.op("start A 1 uB0 pB0")
	g.op("start B 0 uA0 pA0")
	fromX2 := fmt.Sprintf("%d>", x2)
	pump := func(rounds int, dropX2 bool) {
		for i := 0; i < rounds; i++ {
			g.op("adv %d", []int{20, 50, 100}[r.intn(3)])
			for guard := 0; len(g.fl) > 0 && guard < 300; guard++ {
				if dropX2 && strings.HasPrefix(g.fl[0], fromX2) {
					g.flop("drop", 0)
				} else {
					g.flop("deliver", 0)
				}
			}
		}
	}
	pump(6+r.intn(4), true) // connect over x1 only; x2 stays unknown to B
	v := 1 + r.intn(3)
	g.op("renom A %d 0 %d", x2, v)
	// hand B the renomination: what was in flight before it is delivered (dropped if it left x2), then the
	// renomination itself; whatever it provokes stays in flight for the variant below
	for n0 := len(g.fl); n0 > 0; n0-- {
		if strings.HasPrefix(g.fl[0], fromX2) && !strings.Contains(g.fl[0], "nom="+fmt.Sprint(v)) {
			g.flop("drop", 0)
		} else {
			g.flop("deliver", 0)
		}
	}
	supersede := func() { g.op("addremote B 1 0 %d %d -%s", x2, p2, g.fm()) }
	switch variant {
	case 0: // while the deferred nomination waits for B's own check
		supersede()
		pump(3, false)
	case 1: // after B validated and selected the prflx pair
		pump(3, false)
		supersede()
		pump(2, false)
	case 2: // somewhere in between, with a second renomination around it
		for i := 0; i < 2+r.intn(5) && len(g.fl) > 0; i++ {
			g.flop("deliver", r.intn(len(g.fl)))
		}
		supersede()
		if r.chance(1, 2) {
			v += 1 + r.intn(2)
			g.op("renom A %d 0 %d", []int{x1, x2}[r.intn(2)], v)
		}
		pump(3, false)
	default: // the signalled candidate arrives twice (second one is a duplicate), data flows meanwhile
		pump(1+r.intn(2), false)
		g.op("write A %d 0", 10+r.intn(90))
		g.op("write B %d 0", 10+r.intn(90))
		supersede()
		pump(1, false)
		supersede()
		pump(2, false)
	}
	g.op("read A")
	g.op("read B")
	pump(3, false)
}

// renomDirected (directed, variants cycled through g.seq): renomination exchanges between A (controlling, one local x,
// optionally behind a NAT) and B (controlled, two locals) in which a VALUE-LESS nomination and a renomination with a
// value meet on the controlled side.  Every datagram is delivered by hand (picked by its text in g.fl); the session ends
// with a long fair loss-free suffix and `mark quiesced`, where the monitor judges the agreement of the two selections.
//
//	0,1,2  the initial nomination of pair PA is DEFERRED at B (B has not validated PA: A's answers to B's checks of PA are
//	       held back), a renomination of the valid pair PB is accepted meanwhile, then B's check of PA completes;
//	       priority(PA) >, =, < priority(PB)
//	3      B is connected on P1 and never validated P2 itself (all its checks of P2 up to then are dropped); A renominates
//	       P2: B must send a triggered check of P2 although it has a selected pair
//	4      B is ICE-lite: a duplicate of the initial nomination of P1 arrives after the renomination of P2 was accepted
//	5      as 0-2 (priorities cycle with g.seq/6) but the renomination is accepted BEFORE the initial nomination arrives
func (g *vGenSess) renomDirected() {
	r := g.r
	g.hasB = true
	g.fl = nil
	variant := g.seq % 6
	g.o.stat(fmt.Sprintf("sess.renomdirected.%d", variant))
	x, y1, y2 := 16, 176, 192
	xb := x // A's address as B sees it
	nat := r.chance(1, 3)
	hi, lo := 2130706431, 2130706175
	p1, p2 := hi, lo // priorities of B's locals y1, y2 (A's ordinary nomination goes to the pair of y1)
	liteB := ""
	switch variant {
	case 1:
		p2 = hi
	case 2:
		p1, p2 = lo, hi
	case 4:
		liteB = ",lite=1"
	case 5:
		switch (g.seq / 6) % 3 {
		case 1:
			p2 = hi
		case 2:
			p1, p2 = lo, hi
		}
	}
	g.op("new renom=1,tb=9,u=uA0,p=pA0 tb=5,u=uB0,p=pB0%s", liteB)
	if nat {
		xb = 336
		g.op("nat %d %d", x, xb)
		g.o.stat("topo.nat")
	}
	g.op("addlocal A 1 0 %d 2130706431 -", x)
	g.op("addlocal B 1 0 %d %d -", y1, p1)
	g.op("addlocal B 1 0 %d %d -", y2, p2)
	g.op("addremote A 1 0 %d %d -", y1, p1)
	g.op("addremote A 1 0 %d %d -", y2, p2)
	if nat {
		g.op("addremote B 2 0 %d 1694498815 %d", xb, x)
	} else {
		g.op("addremote B 1 0 %d 2130706431 -", x)
	}
	g.op("start A 1 uB0 pB0")
	g.op("start B 0 uA0 pA0")
	// datagram pickers: A's requests / B's requests / success responses, per pair (y = B's local of the pair)
	find := func(pre string, has ...string) int {
	next:
		for k, d := range g.fl {
			if !strings.HasPrefix(d, pre) {
				continue
			}
			for _, h := range has {
				if !strings.Contains(d, h) {
					continue next
				}
			}
			return k
		}
		return -1
	}
	do := func(kind string, pre string, has ...string) bool {
		k := find(pre, has...)
		if k < 0 {
			return false
		}
		if kind == "dup" {
			g.op("dup %d", k)
		} else {
			g.flop(kind, k)
		}
		return true
	}
	reqA := func(y int) string { return fmt.Sprintf("%d>%d:REQ:A#", x, y) }
	reqB := func(y int) string { return fmt.Sprintf("%d>%d:REQ:B#", y, xb) }
	sucToA := func(y int) string { return fmt.Sprintf("%d>%d:SUC:A#", y, xb) }
	sucToB := func(y int) string { return fmt.Sprintf("%d>%d:SUC:B#", x, y) }
	drain := func(dropPre string) {
		for guard := 0; len(g.fl) > 0 && guard < 400; guard++ {
			if dropPre != "" && strings.HasPrefix(g.fl[0], dropPre) {
				g.flop("drop", 0)
			} else {
				g.flop("deliver", 0)
			}
		}
	}
	v := 1 + r.intn(3)
	switch variant {
	case 0, 1, 2, 5:
		// PA = pair of y1 (initially nominated, not valid at B), PB = pair of y2 (valid on both sides)
		do("deliver", reqA(y1)) // B answers and sends a triggered check of PA
		do("deliver", reqA(y2))
		do("deliver", sucToA(y1)) // PA valid at A; A's answers to B's checks of PA are held back from now on
		if do("deliver", reqB(y2)) {
			do("deliver", sucToB(y2)) // PB valid at B
		}
		g.op("adv 200") // A nominates its only valid pair PA (USE-CANDIDATE without a value)
		do("deliver", sucToA(y2)) // PB valid at A
		plain := func() {
			if do("deliver", reqA(y1), ":uc=1:", ":nom=-") { // deferred at B: PA is not valid there
				if r.chance(1, 2) {
					do("deliver", sucToA(y1))
				}
			}
		}
		renom := func() {
			g.op("renom A %d 1 %d", x, v)
			if do("deliver", reqA(y2), fmt.Sprintf(":nom=%d", v)) { // accepted: PB is valid, B selects it
				do("deliver", sucToA(y2)) // A selects PB
			}
		}
		if variant == 5 {
			renom()
			plain()
		} else {
			plain()
			renom()
		}
		// now B's own check of PA completes
		if do("deliver", reqB(y1)) {
			do("deliver", sucToB(y1))
		}
	case 3:
		do("deliver", reqA(y1))
		do("deliver", reqA(y2)) // B sends a triggered check of P2 ...
		for do("drop", reqB(y2)) { // ... which is lost, as is its initial one
		}
		do("deliver", sucToA(y1))
		do("deliver", sucToA(y2))
		if do("deliver", reqB(y1)) {
			do("deliver", sucToB(y1)) // P1 valid at B
		}
		g.op("adv 200") // A nominates P1; B (nothing selected yet) may retry P2: lost again
		for do("drop", reqB(y2)) {
		}
		if do("deliver", reqA(y1), ":uc=1:", ":nom=-") { // B selects P1
			do("deliver", sucToA(y1)) // A selects P1
		}
		drain(reqB(y2))
		g.op("adv %d", []int{20, 50}[r.intn(2)])
		drain(reqB(y2))
		g.op("renom A %d 1 %d", x, v) // deferred at B, which has to validate P2 by a triggered check of its own
		drain("")
	default: // 4: lite B
		do("deliver", reqA(y1))
		do("deliver", reqA(y2))
		do("deliver", sucToA(y1))
		do("deliver", sucToA(y2))
		g.op("adv 200") // A nominates P1
		if do("dup", reqA(y1), ":uc=1:", ":nom=-") { // a copy reaches B (selects P1), the original stays in flight
			do("deliver", sucToA(y1)) // A selects P1
		}
		g.op("renom A %d 1 %d", x, v)
		if do("deliver", reqA(y2), fmt.Sprintf(":nom=%d", v)) { // B selects P2
			do("deliver", sucToA(y2)) // A selects P2
		}
		do("deliver", reqA(y1), ":uc=1:", ":nom=-") // the delayed original of the initial nomination
	}
	// everything else is delivered; fair loss-free suffix longer than the keepalive interval + 1 s
	for i := 0; i < 8+r.intn(3); i++ {
		drain("")
		g.op("adv %d", []int{400, 500}[r.intn(2)])
	}
	drain("")
	g.op("mark quiesced")
}

// renomPrflx: a renomination that reaches the controlled side on a pair whose remote is still
// peer-reflexive (the controlling side's second address was not signalled yet), with the signalled
// candidate arriving at a random point around the deferred nomination's own check.
func (g *vGenSess) renomPrflx() {
	r := g.r
	g.hasB = true
	g.o.stat("sess.renomprflx")
	if g.focus == "C06" {
		g.pickForms()
	}
	g.op("new renom=1,tb=9,u=uA0,p=pA0%s tb=5,u=uB0,p=pB0%s", []string{"", ",ka=0", ",ci=50", ",na=1", ",na=1,ka=0"}[r.intn(5)], []string{"", ",ucp=1", ",pw=0"}[r.intn(3)])
	x1, x2, y := 16, 32, 176
	p1, p2 := 2130706431, []int{2130706430, 100, 2130706431}[r.intn(3)]
	g.op("addlocal A 1 0 %d %d -", x1, p1)
	g.op("addlocal A 1 0 %d %d -", x2, p2)
	g.op("addlocal B 1 0 %d %d -", y, g.prio())
	g.op("addremote A 1 0 %d %d -", y, g.prio())
	g.op("addremote B 1 0 %d %d -", x1, p1)
	g.op("start A 1 uB0 pB0")
	g.op("start B 0 uA0 pA0")
	for i := 0; i < 6+r.intn(6); i++ {
		g.op("adv %d", []int{20, 50, 100}[r.intn(3)])
		for g.inflight > 0 {
			// keep A's checks from x2 away from B for now (drop them) so that x2 stays unknown to B
			g.op("deliver 0")
			g.inflight--
		}
	}
	signalled := false
	v := 1 + r.intn(3)
	for i := 0; i < 10+r.intn(14); i++ {
		switch x := r.intn(10); {
		case x < 2:
			g.op("renom A %d 0 %d", []int{x1, x2, x2}[r.intn(3)], v)
			if r.chance(2, 3) {
				v += 1 + r.intn(2)
			} else if v > 1 && r.chance(1, 2) {
				v--
			}
		case x < 3 && !signalled:
			signalled = true
			g.op("addremote B 1 0 %d %d -%s", x2, p2, g.fm())
		case x < 8:
			if g.inflight > 0 {
				k := g.inflight - 1 - r.intn(min(g.inflight, 3))
				g.op("deliver %d", k)
				g.inflight--
			} else {
				g.op("adv %d", []int{10, 50}[r.intn(2)])
			}
		case x < 9:
			if g.inflight > 0 {
				g.op("dup %d", r.intn(g.inflight))
			}
		default:
			g.op("adv %d", []int{10, 50, 200}[r.intn(3)])
		}
	}
	if !signalled {
		g.op("addremote B 1 0 %d %d -%s", x2, p2, g.fm())
	}
	for i := 0; i < 6; i++ {
		for g.inflight > 0 {
			g.op("deliver 0")
			g.inflight--
		}
		g.op("adv 100")
	}
	g.op("mark quiesced")
}

// renomExchange: the two-agent renomination exchange of C20, sentence 2.  No forged traffic, roles fixed: A (one
// local, optionally behind a NAT) renominates among B's two locals with mostly increasing values, starting at any time
// after both agents were started (also before anything is selected), while requests and responses are reordered,
// duplicated and now and then dropped; then everything is delivered.  The monitor's quiescent-agreement clause is
// evaluated at the mark.
func (g *vGenSess) renomExchange() {
	r := g.r
	g.hasB = true
	g.o.stat("sess.renomexchange")
	g.op("new renom=1,tb=9,u=uA0,p=pA0%s tb=5,u=uB0,p=pB0%s", []string{"", ",ka=0", ",na=1"}[r.intn(3)], []string{"", ",ucp=1", ",pw=0"}[r.intn(3)])
	x, y1, y2 := 16, 176, 192
	nat := r.chance(1, 3)
	if nat {
		g.op("nat %d %d", x, 336)
		g.o.stat("topo.nat")
	}
	p1, p2 := 2130706431, []int{2130706175, 100, 2130706431}[r.intn(3)]
	g.op("addlocal A 1 0 %d 2130706431 -", x)
	g.op("addlocal B 1 0 %d %d -", y1, p1)
	g.op("addlocal B 1 0 %d %d -", y2, p2)
	g.op("addremote A 1 0 %d %d -", y1, p1)
	g.op("addremote A 1 0 %d %d -", y2, p2)
	if nat {
		g.op("addremote B 2 0 336 1694498815 %d", x)
	} else {
		g.op("addremote B 1 0 %d 2130706431 -", x)
	}
	g.op("start A 1 uB0 pB0")
	g.op("start B 0 uA0 pA0")
	for i := r.intn(4); i > 0; i-- {
		for g.inflight > 0 {
			g.op("deliver 0")
			g.inflight--
		}
		g.op("adv %d", []int{50, 100, 200}[r.intn(3)])
	}
	v := 1 + r.intn(3)
	for i := 0; i < 14+r.intn(24); i++ {
		switch c := r.intn(30); {
		case c < 7:
			g.op("renom A %d %d %d", x, r.intn(2), v)
			if r.chance(3, 4) {
				v += 1 + r.intn(2)
			} else if v > 1 && r.chance(1, 2) {
				v--
			}
		case c < 21:
			if g.inflight > 0 {
				g.op("deliver %d", r.intn(g.inflight))
				g.inflight--
			} else {
				g.op("adv %d", []int{10, 50}[r.intn(2)])
			}
		case c < 24:
			if g.inflight > 0 {
				g.op("dup %d", r.intn(g.inflight))
			}
		case c < 25:
			if g.inflight > 0 {
				g.op("drop %d", r.intn(g.inflight))
				g.inflight--
			}
		default:
			g.op("adv %d", []int{10, 50, 200}[r.intn(3)])
		}
	}
	for i := 0; i < 6+r.intn(4); i++ {
		for g.inflight > 0 {
			g.op("deliver 0")
			g.inflight--
		}
		g.op("adv %d", []int{100, 200}[r.intn(2)])
	}
	for g.inflight > 0 {
		g.op("deliver 0")
		g.inflight--
	}
	g.op("mark quiesced")
}
