//go:build verif

// Tie A of property C11 (see /verif/notes/C11.md): concurrent histories of the REAL handlerNotifier
// (agent_handlers.go), recorded with stamps from one atomic counter, one protocol line per stream
// history:
//
//	notifier hist <stream> <scenario> <tok> <tok> …      → implementation output "recorded"
//
// tokens (stamp order): E<k>:<e> Enqueue call k of event e starts, R<k> it returned, I<e> handler
// entered with e, O<e> handler about to return, C<j>:g|n Close(graceful|not) call j starts, D<j> it
// returned, Q idle observed under the notifier's mutex (queue empty, running false, no enqueue in
// flight), T not idle although every handler returned long ago, L<n> n goroutines alive after the
// final GracefulClose returned, ! the code under test panicked in an Enqueue/Close call.  The Lean driver (lean/Driver/Notifier.lean) evaluates the spec monitor
// on each line and checks that the history is a behaviour of the model.
//
// Three kinds of scenario: "d" the bare handlerNotifier inside a testing/synctest bubble (virtual
// clock, deterministic sleeps, leak oracle), "f" the bare handlerNotifier free-running on real
// goroutines (GOMAXPROCS 1/2/16, yields), "a" a real Agent inside a bubble (events enqueued by the
// agent's own code paths updateConnectionState / setSelectedPair / EnqueueCandidate inside tasks,
// handlers registered through OnConnectionStateChange / OnCandidate / OnSelectedCandidatePairChange,
// Close from inside a handler, GracefulClose from outside).
package ice

import (
	"context"
	"fmt"
	"runtime"
	"sort"
	"strings"
	"sync"
	"sync/atomic"
	"testing"
	"testing/synctest"
	"time"

	"github.com/pion/transport/v4"
)

// vnWithT obtains a *testing.T (needed by synctest.Test) without touching the shared main file.
func vnWithT(f func(t *testing.T)) bool {
	return testing.RunTests(func(_, _ string) (bool, error) { return true, nil },
		[]testing.InternalTest{{Name: "TestVerifHarness", F: f}})
}

type vnEv struct {
	stamp uint64
	tok   string
}

// vnRec records per-stream histories; every token carries a stamp of ONE atomic counter.
type vnRec struct {
	ctr atomic.Uint64
	mu  sync.Mutex
	evs [3][]vnEv
}

func (r *vnRec) stamp() uint64 { return r.ctr.Add(1) }
func (r *vnRec) put(stream int, st uint64, tok string) {
	r.mu.Lock()
	r.evs[stream] = append(r.evs[stream], vnEv{st, tok})
	r.mu.Unlock()
}
func (r *vnRec) now(stream int, tok string) { r.put(stream, r.stamp(), tok) }
func (r *vnRec) all(tok string) {
	st := r.stamp()
	for s := 0; s < 3; s++ {
		r.put(s, st, tok)
	}
}
func (r *vnRec) line(stream int) (string, bool) {
	r.mu.Lock()
	defer r.mu.Unlock()
	evs := append([]vnEv{}, r.evs[stream]...)
	sort.Slice(evs, func(i, j int) bool { return evs[i].stamp < evs[j].stamp })
	toks := make([]string, 0, len(evs))
	has := false
	for _, e := range evs {
		toks = append(toks, e.tok)
		if e.tok[0] == 'E' || e.tok[0] == 'I' {
			has = true
		}
	}
	return strings.Join(toks, " "), has
}

// vnLeaked counts goroutines of the code under test (notifier drainers, task loop, agent, candidate
// receive loops) that are still alive; NumGoroutine is only the cheap pre-check (it also counts
// unrelated runtime/testing goroutines that come and go).
func vnLeaked(base int) int {
	if runtime.NumGoroutine()-base <= 0 {
		return 0
	}
	buf := make([]byte, 1<<20)
	buf = buf[:runtime.Stack(buf, true)]
	n := 0
	for i, g := range strings.Split(string(buf), "\n\n") {
		if i == 0 {
			continue // the calling goroutine
		}
		if strings.Contains(g, "handlerNotifier") || strings.Contains(g, "taskloop.") ||
			strings.Contains(g, "ice/v4.(*Agent)") || strings.Contains(g, "ice/v4.(*candidateBase)") {
			n++
		}
	}
	return n
}

// handler behaviours
const (
	vnFast = iota
	vnSleep
	vnBlock
	vnReenqSame
	vnReenqOther
	vnCloseInside
	vnYield
	vnKinds
)

type vnPlan struct {
	kind int
	d    time.Duration
	rel  chan struct{}
}

type vnDirect struct {
	rec     *vnRec
	h       *handlerNotifier
	synct   bool
	evID    atomic.Int64
	callID  atomic.Int64
	closeID atomic.Int64
	plans   sync.Map // event id -> *vnPlan
	cands   sync.Map // event id -> Candidate
}

func (d *vnDirect) pause(x time.Duration) {
	if x <= 0 {
		return
	}
	if d.synct {
		time.Sleep(x)
		return
	}
	// free-running: never more than a few yields / microseconds of real time
	n := int(x/time.Microsecond)%7 + 1
	for i := 0; i < n; i++ {
		runtime.Gosched()
	}
	if x%3 == 0 {
		time.Sleep(time.Duration(x%50) * time.Microsecond)
	}
}

// vnGuard turns a panic of the code under test (in the calling goroutine) into a history token.
func vnGuard(rec *vnRec, stream int) {
	if p := recover(); p != nil {
		if stream < 0 {
			rec.all("!")
		} else {
			rec.now(stream, "!")
		}
	}
}

func (d *vnDirect) enqueue(stream int, e int) {
	defer vnGuard(d.rec, stream)
	k := d.callID.Add(1) - 1
	d.rec.now(stream, fmt.Sprintf("E%d:%d", k, e))
	switch stream {
	case 0:
		d.h.EnqueueConnectionState(ConnectionState(e))
	case 1:
		c, err := NewCandidateHost(&CandidateHostConfig{Network: "udp", Address: "10.0.0.1", Port: e + 1, Component: 1})
		if err != nil {
			panic(err)
		}
		d.h.EnqueueCandidate(c)
	default:
		d.h.EnqueueSelectedCandidatePair(&CandidatePair{id: uint64(e)})
	}
	d.rec.now(stream, fmt.Sprintf("R%d", k))
}

func (d *vnDirect) closeN(graceful bool) {
	defer vnGuard(d.rec, -1)
	j := d.closeID.Add(1) - 1
	g := "n"
	if graceful {
		g = "g"
	}
	d.rec.all(fmt.Sprintf("C%d:%s", j, g))
	d.h.Close(graceful)
	d.rec.all(fmt.Sprintf("D%d", j))
}

func (d *vnDirect) handler(stream int, e int) {
	d.rec.now(stream, fmt.Sprintf("I%d", e))
	if p, ok := d.plans.Load(e); ok {
		pl := p.(*vnPlan)
		switch pl.kind {
		case vnSleep:
			d.pause(pl.d)
		case vnBlock:
			<-pl.rel
		case vnReenqSame:
			d.enqueue(stream, int(d.evID.Add(1)-1))
		case vnReenqOther:
			d.enqueue((stream+1)%3, int(d.evID.Add(1)-1))
			d.enqueue(stream, int(d.evID.Add(1)-1))
		case vnCloseInside:
			d.closeN(false)
		case vnYield:
			for i := 0; i < 3; i++ {
				runtime.Gosched()
			}
		}
	}
	d.rec.now(stream, fmt.Sprintf("O%d", e))
}

type vnStep struct {
	delay  time.Duration
	stream int
	e      int
}

func vnDelay(r *vRand) time.Duration {
	switch r.intn(4) {
	case 0:
		return 0
	case 1:
		return time.Duration(1 + r.intn(5))
	case 2:
		return time.Duration(1+r.intn(50)) * time.Microsecond
	default:
		return time.Duration(1+r.intn(20)) * time.Millisecond
	}
}

// vnRunDirect runs one scenario on a bare handlerNotifier and returns the per-stream history lines.
func vnRunDirect(r *vRand, synct bool, stats func(string)) [3]string {
	d := &vnDirect{rec: &vnRec{}, synct: synct}
	d.h = &handlerNotifier{
		connectionStateFunc: func(s ConnectionState) { d.handler(0, int(s)) },
		candidateFunc:       func(c Candidate) { d.handler(1, c.Port()-1) },
		candidatePairFunc:   func(p *CandidatePair) { d.handler(2, int(p.id)) },
		done:                make(chan struct{}),
	}
	base := runtime.NumGoroutine()
	mainStream := r.intn(3)
	nEnq := 1
	if r.chance(1, 2) {
		nEnq = 1 + r.intn(4)
	}
	var relTimers []func()
	mkPlan := func(e int) {
		if r.chance(1, 2) {
			return // fast
		}
		pl := &vnPlan{kind: 1 + r.intn(vnKinds-1), d: vnDelay(r)}
		if pl.kind == vnCloseInside && !r.chance(1, 3) {
			pl.kind = vnSleep
		}
		if pl.kind == vnBlock {
			pl.rel = make(chan struct{})
			ch, dd := pl.rel, vnDelay(r)+time.Duration(r.intn(3))*time.Millisecond
			relTimers = append(relTimers, func() { d.pause(dd); close(ch) })
		}
		stats(fmt.Sprintf("notifier.handler.kind%d", pl.kind))
		d.plans.Store(e, pl)
	}
	scripts := make([][]vnStep, nEnq)
	for i := range scripts {
		m := 1 + r.intn(6)
		if r.chance(1, 8) {
			m = 8 + r.intn(12)
		}
		for j := 0; j < m; j++ {
			st := mainStream
			if r.chance(1, 5) {
				st = r.intn(3)
			}
			e := int(d.evID.Add(1) - 1)
			mkPlan(e)
			dl := vnDelay(r)
			if r.chance(1, 2) {
				dl = 0 // burst
			}
			scripts[i] = append(scripts[i], vnStep{dl, st, e})
		}
	}
	type closer struct {
		delay    time.Duration
		graceful bool
	}
	var closers []closer
	for n := r.intn(3); n > 0; n-- {
		closers = append(closers, closer{vnDelay(r) * time.Duration(1+r.intn(4)), r.chance(1, 2)})
	}
	if nEnq == 1 {
		stats("notifier.scen.single-enqueuer")
	} else {
		stats("notifier.scen.multi-enqueuer")
	}
	if len(closers) > 0 {
		stats("notifier.scen.concurrent-close")
	}
	var wg sync.WaitGroup
	for i := range scripts {
		wg.Add(1)
		go func(sc []vnStep) {
			defer wg.Done()
			for _, s := range sc {
				d.pause(s.delay)
				d.enqueue(s.stream, s.e)
			}
		}(scripts[i])
	}
	for _, c := range closers {
		wg.Add(1)
		go func(c closer) {
			defer wg.Done()
			d.pause(c.delay)
			d.closeN(c.graceful)
		}(c)
	}
	for _, f := range relTimers {
		wg.Add(1)
		go func(f func()) { defer wg.Done(); f() }(f)
	}
	wg.Wait()
	// let every handler finish, then look at the notifier under its own mutex
	idle := func() [3]bool {
		d.h.Lock()
		defer d.h.Unlock()
		return [3]bool{
			len(d.h.connectionStates) == 0 && !d.h.runningConnectionStates,
			len(d.h.candidates) == 0 && !d.h.runningCandidates,
			len(d.h.selectedCandidatePairs) == 0 && !d.h.runningCandidatePairs,
		}
	}
	if synct {
		time.Sleep(time.Hour)
		synctest.Wait()
	} else {
		// real time: handlers only yield here, so idleness is normally reached within microseconds;
		// 2 s without it means an event is stuck (token T)
		for t0, i := time.Now(), 0; time.Since(t0) < 2*time.Second; i++ {
			if x := idle(); x[0] && x[1] && x[2] {
				break
			}
			runtime.Gosched()
			if i > 1000 {
				time.Sleep(20 * time.Microsecond)
			}
		}
	}
	d.h.Lock()
	st := d.rec.stamp()
	q := [3]bool{
		len(d.h.connectionStates) == 0 && !d.h.runningConnectionStates,
		len(d.h.candidates) == 0 && !d.h.runningCandidates,
		len(d.h.selectedCandidatePairs) == 0 && !d.h.runningCandidatePairs,
	}
	d.h.Unlock()
	for s := 0; s < 3; s++ {
		if q[s] {
			d.rec.put(s, st, "Q")
		} else {
			d.rec.put(s, st, "T")
		}
	}
	d.closeN(true)
	if synct {
		time.Sleep(time.Minute)
		synctest.Wait()
		if n := vnLeaked(base); n > 0 {
			d.rec.all(fmt.Sprintf("L%d", n))
		}
	}
	var out [3]string
	for s := 0; s < 3; s++ {
		if l, has := d.rec.line(s); has {
			out[s] = l
		}
	}
	return out
}

// ---- agent-level scenario ----

type vnNoIfNet struct{ transport.Net }

func (vnNoIfNet) Interfaces() ([]*transport.Interface, error) { return nil, nil }

type vnPending struct {
	key       int
	id        int
	delivered bool
}

type vnAgentScen struct {
	rec     *vnRec
	a       *Agent
	mu      sync.Mutex
	pend    [3][]*vnPending
	evID    int
	callID  int
	closeID int
	closing bool
	closedK int
	closedR bool
	inClose atomic.Bool
}

// inside a task (serial) or under mu
func (s *vnAgentScen) newEvent(stream, key int) (k, e int) {
	s.mu.Lock()
	defer s.mu.Unlock()
	e = s.evID
	s.evID++
	k = s.callID
	s.callID++
	s.pend[stream] = append(s.pend[stream], &vnPending{key: key, id: e})
	return k, e
}

func (s *vnAgentScen) lookup(stream, key int) int {
	s.mu.Lock()
	defer s.mu.Unlock()
	for _, p := range s.pend[stream] {
		if p.key == key && !p.delivered {
			p.delivered = true
			return p.id
		}
	}
	// never enqueued (or already delivered): a fresh id the history has no Enqueue for
	e := 100000 + s.evID
	s.evID++
	return e
}

func (s *vnAgentScen) close(graceful bool) {
	s.mu.Lock()
	j := s.closeID
	s.closeID++
	first := !s.closing
	if first {
		// the agent's on-close hook enqueues ConnectionStateClosed (agent.go, taskloop onClose)
		s.closing = true
		e := s.evID
		s.evID++
		s.closedK = s.callID
		s.callID++
		s.pend[0] = append(s.pend[0], &vnPending{key: int(ConnectionStateClosed), id: e})
		s.rec.now(0, fmt.Sprintf("E%d:%d", s.closedK, e))
	}
	g := "n"
	if graceful {
		g = "g"
	}
	s.rec.all(fmt.Sprintf("C%d:%s", j, g))
	s.mu.Unlock()
	if graceful {
		_ = s.a.GracefulClose()
	} else {
		_ = s.a.Close()
	}
	s.mu.Lock()
	s.rec.all(fmt.Sprintf("D%d", j))
	if !s.closedR {
		s.closedR = true
		s.rec.now(0, fmt.Sprintf("R%d", s.closedK))
	}
	s.mu.Unlock()
}

func vnCandKey(c Candidate) int {
	if c == nil {
		return -1
	}
	return c.Port()
}

func vnRunAgent(t *testing.T, r *vRand, stats func(string)) [3]string {
	s := &vnAgentScen{rec: &vnRec{}}
	base := runtime.NumGoroutine()
	a, err := NewAgent(&AgentConfig{
		NetworkTypes:     []NetworkType{NetworkTypeUDP4},
		MulticastDNSMode: MulticastDNSModeDisabled,
		Net:              vnNoIfNet{},
	})
	if err != nil {
		t.Fatal(err)
	}
	s.a = a
	// handler behaviour is decided per invocation from a pre-generated table (deterministic)
	type beh struct {
		kind int
		d    time.Duration
	}
	behs := make([]beh, 64)
	for i := range behs {
		behs[i] = beh{r.intn(6), vnDelay(r)}
	}
	closeInHandler := r.chance(1, 3)
	var behIdx atomic.Int64
	react := func() {
		b := behs[int(behIdx.Add(1))%len(behs)]
		switch b.kind {
		case 1:
			time.Sleep(b.d)
		case 2:
			_, _ = a.GetLocalCandidates()
		case 3:
			_, _ = a.GetGatheringState()
			_, _ = a.GetSelectedCandidatePair()
		case 4:
			if closeInHandler && s.inClose.CompareAndSwap(false, true) {
				s.close(false) // Close (not GracefulClose) from inside a callback
			}
		case 5:
			time.Sleep(b.d)
			_, _, _ = a.GetLocalUserCredentials()
		}
	}
	_ = a.OnConnectionStateChange(func(cs ConnectionState) {
		e := s.lookup(0, int(cs))
		s.rec.now(0, fmt.Sprintf("I%d", e))
		react()
		s.rec.now(0, fmt.Sprintf("O%d", e))
	})
	_ = a.OnCandidate(func(c Candidate) {
		e := s.lookup(1, vnCandKey(c))
		s.rec.now(1, fmt.Sprintf("I%d", e))
		react()
		s.rec.now(1, fmt.Sprintf("O%d", e))
	})
	_ = a.OnSelectedCandidatePairChange(func(l, rm Candidate) {
		e := s.lookup(2, vnCandKey(l)*100000+vnCandKey(rm))
		s.rec.now(2, fmt.Sprintf("I%d", e))
		react()
		s.rec.now(2, fmt.Sprintf("O%d", e))
	})
	mkCand := func(port int) Candidate {
		c, err := NewCandidateHost(&CandidateHostConfig{Network: "udp", Address: "10.0.0.9", Port: port, Component: 1})
		if err != nil {
			t.Fatal(err)
		}
		return c
	}
	states := []ConnectionState{ConnectionStateChecking, ConnectionStateConnected, ConnectionStateDisconnected, ConnectionStateCompleted}
	type op struct {
		delay time.Duration
		kind  int
		arg   int
	}
	nThreads := 1 + r.intn(3)
	scripts := make([][]op, nThreads)
	port := 1000
	for i := range scripts {
		for m := 2 + r.intn(8); m > 0; m-- {
			port++
			dl := vnDelay(r)
			if r.chance(1, 2) {
				dl = 0
			}
			scripts[i] = append(scripts[i], op{dl, r.intn(3), port})
		}
	}
	var wg sync.WaitGroup
	for i := range scripts {
		wg.Add(1)
		go func(sc []op, seed int) {
			defer wg.Done()
			for n, o := range sc {
				time.Sleep(o.delay)
				_ = a.loop.Run(a.loop, func(context.Context) {
					switch o.kind {
					case 0: // the agent's own connection-state path
						st := states[(seed+n+o.arg)%len(states)]
						if a.connectionState != st {
							k, e := s.newEvent(0, int(st))
							s.rec.now(0, fmt.Sprintf("E%d:%d", k, e))
							a.updateConnectionState(st)
							s.rec.now(0, fmt.Sprintf("R%d", k))
						}
					case 1: // candidate publication as addCandidate does it
						c := mkCand(o.arg)
						k, e := s.newEvent(1, vnCandKey(c))
						s.rec.now(1, fmt.Sprintf("E%d:%d", k, e))
						a.candidateNotifier.EnqueueCandidate(c)
						s.rec.now(1, fmt.Sprintf("R%d", k))
					default: // setSelectedPair: Connected (if not yet) + selected pair
						p := newCandidatePair(mkCand(o.arg), mkCand(o.arg+20000), true)
						k0, e0 := -1, -1
						if a.connectionState != ConnectionStateConnected {
							k0, e0 = s.newEvent(0, int(ConnectionStateConnected))
							s.rec.now(0, fmt.Sprintf("E%d:%d", k0, e0))
						}
						k, e := s.newEvent(2, vnCandKey(p.Local)*100000+vnCandKey(p.Remote))
						s.rec.now(2, fmt.Sprintf("E%d:%d", k, e))
						a.setSelectedPair(p)
						s.rec.now(2, fmt.Sprintf("R%d", k))
						if k0 >= 0 {
							s.rec.now(0, fmt.Sprintf("R%d", k0))
						}
					}
				})
			}
		}(scripts[i], i)
	}
	// Close / GracefulClose at a random moment, possibly while enqueuers are still running
	early := r.chance(1, 2)
	if early {
		stats("notifier.agent.close-during-burst")
		time.Sleep(vnDelay(r) * time.Duration(1+r.intn(3)))
		if r.chance(1, 3) {
			s.close(false)
		}
		s.close(true)
	}
	wg.Wait()
	if !early {
		time.Sleep(time.Hour)
		synctest.Wait()
		// idle observation per stream (each stream has its own handlerNotifier in the agent)
		ns := [3]*handlerNotifier{a.connectionStateNotifier, a.candidateNotifier, a.selectedCandidatePairNotifier}
		for i, h := range ns {
			h.Lock()
			st := s.rec.stamp()
			var idle bool
			switch i {
			case 0:
				idle = len(h.connectionStates) == 0 && !h.runningConnectionStates
			case 1:
				idle = len(h.candidates) == 0 && !h.runningCandidates
			default:
				idle = len(h.selectedCandidatePairs) == 0 && !h.runningCandidatePairs
			}
			h.Unlock()
			if idle {
				s.rec.put(i, st, "Q")
			} else {
				s.rec.put(i, st, "T")
			}
		}
		s.close(true)
	}
	time.Sleep(time.Minute)
	synctest.Wait()
	if n := vnLeaked(base); n > 0 {
		s.rec.all(fmt.Sprintf("L%d", n))
	}
	if s.inClose.Load() {
		stats("notifier.agent.close-from-handler")
	}
	var out [3]string
	for i := 0; i < 3; i++ {
		if l, has := s.rec.line(i); has {
			out[i] = l
		}
	}
	return out
}

func init() {
	vComponents["notifier"] = &vComp{
		gen: func(o *vOut, r *vRand, thorough bool, args []string, emit func(op string)) {
			nd, nf, na := 6000, 1200, 1500
			if thorough {
				nd, nf, na = 250000, 15000, 50000
			}
			stats := func(k string) { o.stat(k) }
			var lines []string
			add := func(kind string, i int, ls [3]string) {
				for s, l := range ls {
					if l != "" {
						lines = append(lines, fmt.Sprintf("notifier hist %d %s%d %s", s, kind, i, l))
						o.stat("notifier.hist")
					}
				}
			}
			flush := func() {
				for _, l := range lines {
					emit(l)
				}
				lines = lines[:0]
				_ = o.w.Flush()
			}
			ok := vnWithT(func(t *testing.T) {
				for i := 0; i < nd; i++ {
					rr := r.fork()
					var ls [3]string
					synctest.Test(t, func(t *testing.T) { ls = vnRunDirect(rr, true, stats) })
					add("d", i, ls)
					if i%50 == 49 {
						flush()
					}
				}
				flush()
				for i := 0; i < na; i++ {
					rr := r.fork()
					var ls [3]string
					synctest.Test(t, func(t *testing.T) { ls = vnRunAgent(t, rr, stats) })
					add("a", i, ls)
					if i%50 == 49 {
						flush()
					}
				}
				flush()
			})
			if !ok {
				panic("notifier: synctest scenarios failed")
			}
			procs := []int{1, 2, 16}
			old := runtime.GOMAXPROCS(0)
			for i := 0; i < nf; i++ {
				runtime.GOMAXPROCS(procs[i%len(procs)])
				ls := vnRunDirect(r.fork(), false, stats)
				add("f", i, ls)
				if strings.Contains(ls[0]+ls[1]+ls[2], " T ") {
					break // one stuck stream is enough (each costs 2 s of real time)
				}
			}
			runtime.GOMAXPROCS(old)
			flush()
		},
		exec: func(o *vOut, toks []string) string {
			if len(toks) >= 4 && toks[1] == "hist" {
				return "recorded"
			}
			return "bad-op"
		},
	}
}
