//go:build verif

// C12 — correspondence harness for UniversalUDPMuxDefault (component "udpmuxuni", sequential tie C).
//
// A session is one real UniversalUDPMuxDefault over the fake shared socket of the udpmux component, inside
// one testing/synctest bubble (virtual clock): every base operation of the udpmux component works on the
// embedded UDPMuxDefault; on top of that
//
//	new <ap> <ttl_ms> [s]                     build the mux (ttl 0 = the default 25 s); `s` = the driver judges the session
//	                                          by the STRICT reading of the monitor (the harness ignores it)
//	xoraddr <server> <deadline_ms>            start GetXORMappedAddr in a goroutine -> waiter x<n>
//	tick <ms>                                 let virtual time pass
//	in 0 <src> <kind> <pid>                   one datagram; kinds of udpmux plus
//	    xs:<o|w>:<v>   Binding success with XOR-MAPPED-ADDRESS v      xn:<o|w>  … without it
//	    xb:<o|w>       Binding success with a malformed XOR-MAPPED-ADDRESS
//	    xe:<o|w>:<v>   Binding error response carrying XOR-MAPPED-ADDRESS
//	    xi:<v>  indication, xr:<v>  request, xq:<v>:<username>  request with USERNAME — all with the attribute
//	    (o = transaction id of the latest discovery request the mux wrote to this source, w = a foreign one)
//	getconnforurl u:<ufrag> <url> <local>     GetConnForURL
//	relayed                                   GetRelayedAddr
//	xstate                                    the per-server table (in-package inspection)
//
// Every output carries, after the base output, ` u=<server key>:<v>` for every table entry whose mapped
// address was (re)written by the operation and ` x<k>=<result>` for every GetXORMappedAddr call that
// returned during it (ok:<v> | timeout | nomap | werr | err:…).
package ice

import (
	"encoding/binary"
	"errors"
	"fmt"
	"net"
	"net/netip"
	"os"
	"sort"
	"strconv"
	"strings"
	"sync"
	"testing/synctest"
	"time"

	"github.com/pion/stun/v3"
)

func init() {
	vComponents["udpmuxuni"] = &vComp{gen: vUuGen, exec: vUuExec}
}

type vUuWaiter struct {
	key      netip.AddrPort
	mu       sync.Mutex
	done     bool
	res      string
	reported bool
}

type vUuReq struct {
	key netip.AddrPort // canonical destination
	tid [stun.TransactionIDSize]byte
}

type vUuSess struct {
	*vUmSess
	uni     *UniversalUDPMuxDefault
	t0      time.Time
	waiters []*vUuWaiter
	reqMu   sync.Mutex
	reqs    []vUuReq
	reqDst  []string // raw destination tokens of the requests written during the current operation
	// outstanding[key]: the latest discovery request to key has not been answered by a consumed own response
	outstanding map[netip.AddrPort]bool
	// lastAnswer[key]: mapped address of the latest own answer taken from key ("" = none)
	lastAnswer map[netip.AddrPort]string
}

var vUuCur *vUuSess

func vUuExec(o *vOut, t []string) string {
	if len(t) < 2 {
		return "bad-op"
	}
	if t[1] == "new" {
		if vUuCur != nil { // unfinished session (replays / shrinking drop the `end` op)
			vUuCur.ops <- []string{"udpmuxuni", "end"}
			<-vUuCur.res
			vUuCur = nil
		}
		u := &vUuSess{vUmSess: vUmStart(o), outstanding: map[netip.AddrPort]bool{}, lastAnswer: map[netip.AddrPort]string{}}
		u.vUmSess.ext = u.op
		vUuCur = u
	}
	if vUuCur == nil {
		return "no-session"
	}
	s := vUuCur
	s.ops <- t
	r := <-s.res
	if t[1] == "end" {
		vUuCur = nil
	}
	return r
}

// value <-> XOR-MAPPED-ADDRESS: v in 0..255 is 203.0.113.v:4000+v
func vUuValue(v int) *stun.XORMappedAddress {
	return &stun.XORMappedAddress{IP: net.IPv4(203, 0, 113, byte(v)).To4(), Port: 4000 + v%256}
}

func vUuValueTok(a *stun.XORMappedAddress) string {
	if a == nil {
		return "nil"
	}
	if ip := a.IP.To4(); ip != nil && ip[0] == 203 && ip[1] == 0 && ip[2] == 113 && a.Port == 4000+int(ip[3]) {
		return strconv.Itoa(int(ip[3]))
	}
	return "?" + strings.NewReplacer(" ", "_").Replace(a.String())
}

// vUuPayload builds the bytes of an x-kind; own = transaction id of the latest request to the source (nil: none)
func vUuPayload(kind string, pid int, own *[stun.TransactionIDSize]byte) ([]byte, bool) {
	var tid [stun.TransactionIDSize]byte
	binary.BigEndian.PutUint64(tid[:8], uint64(pid)*0x9e3779b97f4a7c15+7)
	binary.BigEndian.PutUint32(tid[8:], uint32(pid))
	p := strings.Split(kind, ":")
	sel := func(i int) {
		if len(p) > i && p[i] == "o" && own != nil {
			tid = *own
		}
	}
	val := func(i int) (stun.Setter, bool) {
		if len(p) <= i {
			return nil, false
		}
		v, err := strconv.Atoi(p[i])
		if err != nil || v < 0 || v > 255 {
			return nil, false
		}
		return vUuValue(v), true
	}
	pad := stun.NewSoftware("p" + strconv.Itoa(pid)) // payload bytes unique per pid
	var setters []stun.Setter
	switch p[0] {
	case "xs":
		x, ok := val(2)
		if !ok || (p[1] != "o" && p[1] != "w") {
			return nil, false
		}
		sel(1)
		setters = []stun.Setter{stun.BindingSuccess, stun.NewTransactionIDSetter(tid), x, pad}
	case "xn":
		if len(p) != 2 || (p[1] != "o" && p[1] != "w") {
			return nil, false
		}
		sel(1)
		setters = []stun.Setter{stun.BindingSuccess, stun.NewTransactionIDSetter(tid),
			&stun.MappedAddress{IP: net.IPv4(203, 0, 113, 9).To4(), Port: 4009}, pad}
	case "xb":
		if len(p) != 2 || (p[1] != "o" && p[1] != "w") {
			return nil, false
		}
		sel(1)
		// family 0x03: the attribute is there, XORMappedAddress.GetFrom fails
		setters = []stun.Setter{stun.BindingSuccess, stun.NewTransactionIDSetter(tid),
			stun.RawAttribute{Type: stun.AttrXORMappedAddress, Value: []byte{0, 3, 0x11, 0x22, 1, 2, 3, 4}}, pad}
	case "xe":
		x, ok := val(2)
		if !ok || (p[1] != "o" && p[1] != "w") {
			return nil, false
		}
		sel(1)
		setters = []stun.Setter{stun.BindingError, stun.NewTransactionIDSetter(tid), stun.CodeBadRequest, x, pad}
	case "xi":
		x, ok := val(1)
		if !ok || len(p) != 2 {
			return nil, false
		}
		setters = []stun.Setter{stun.NewType(stun.MethodBinding, stun.ClassIndication), stun.NewTransactionIDSetter(tid), x, pad}
	case "xr":
		x, ok := val(1)
		if !ok || len(p) != 2 {
			return nil, false
		}
		setters = []stun.Setter{stun.BindingRequest, stun.NewTransactionIDSetter(tid), x, pad}
	case "xq":
		x, ok := val(1)
		if !ok || len(p) < 3 {
			return nil, false
		}
		setters = []stun.Setter{stun.BindingRequest, stun.NewTransactionIDSetter(tid),
			stun.NewUsername(strings.Join(p[2:], ":")), x, pad}
	default:
		return nil, false
	}
	m, err := stun.Build(setters...)
	if err != nil {
		panic(err)
	}
	return m.Raw, true
}

func (s *vUuSess) nowMs() int64 { return time.Since(s.t0).Milliseconds() }

func (s *vUuSess) snapshot() map[netip.AddrPort]*stun.XORMappedAddress {
	s.uni.mu.Lock()
	defer s.uni.mu.Unlock()
	r := make(map[netip.AddrPort]*stun.XORMappedAddress, len(s.uni.xorMappedMap))
	for k, e := range s.uni.xorMappedMap {
		r[k] = e.addr
	}
	return r
}

// effects: ` u=<key>:<v>` for entries whose mapped address changed, ` x<k>=<res>` for calls that returned
func (s *vUuSess) effects(before map[netip.AddrPort]*stun.XORMappedAddress) string {
	after := s.snapshot()
	var learned []string
	for k, a := range after {
		if a != nil && before[k] != a {
			learned = append(learned, " u="+vUmTokenOfAddrPort(k)+":"+vUuValueTok(a))
		}
	}
	sort.Strings(learned)
	out := strings.Join(learned, "")
	for i, w := range s.waiters {
		w.mu.Lock()
		if w.done && !w.reported {
			w.reported = true
			out += fmt.Sprintf(" x%d=%s", i, w.res)
			if strings.HasPrefix(w.res, "ok:") && w.res[3:] != s.lastAnswer[w.key] {
				// observation U1 (follow-up): the call returns an address no answer of the server carried
				s.o.stat("obs.uni_answer.call_returned_address_of_a_datagram_that_was_no_answer")
			}
		}
		w.mu.Unlock()
	}
	return out
}

func vUuErr(err error) string {
	switch {
	case errors.Is(err, errXORMappedAddrTimeout):
		return "timeout"
	case errors.Is(err, errNoXorAddrMapping):
		return "nomap"
	case errors.Is(err, errWriteSTUNMessage):
		return "werr"
	case errors.Is(err, errInvalidAddress):
		return "err:addr"
	}
	return "err:other:" + strings.NewReplacer(" ", "_", "\t", "_").Replace(err.Error())
}

func (s *vUuSess) op(t []string) string {
	if t[1] == "new" {
		if len(t) != 4 && !(len(t) == 5 && t[4] == "s") {
			return "bad-op"
		}
		ttl, err := strconv.Atoi(t[3])
		if err != nil || ttl < 0 {
			return "bad-op"
		}
		s.mode, s.ap = "U", t[2] == "1"
		f := newVUmFake(vUmAddr{hi: 0, lo: 0, port: 7000}.udpAddr()) // [::]:7000, unspecified
		f.onWrite = func(b []byte, addr net.Addr) {
			if !stun.IsMessage(b) {
				return
			}
			m := &stun.Message{Raw: append([]byte{}, b...)}
			if m.Decode() != nil {
				return
			}
			ua, ok := addr.(*net.UDPAddr)
			if !ok {
				return
			}
			s.reqMu.Lock()
			s.reqs = append(s.reqs, vUuReq{key: canonicalAddrPort(ua.AddrPort()), tid: m.TransactionID})
			s.reqDst = append(s.reqDst, vUmTokenOfUDPAddr(ua))
			s.reqMu.Unlock()
		}
		var pc net.PacketConn = f
		if s.ap {
			pc = vUmFakeAP{f}
		}
		s.fakes = append(s.fakes, f)
		s.uni = NewUniversalUDPMuxDefault(UniversalUDPMuxParams{UDPConn: pc, Logger: vUmQuietLogger(),
			XORMappedAddrCacheTTL: time.Duration(ttl) * time.Millisecond})
		s.muxes = append(s.muxes, s.uni.UDPMuxDefault)
		s.conns = append(s.conns, nil)
		s.t0 = time.Now()
		synctest.Wait()
		s.o.stat("session.U.ap" + t[2])
		return "ok"
	}
	if s.uni == nil {
		return "no-session"
	}
	before := s.snapshot()
	s.reqMu.Lock()
	s.reqDst = nil
	s.reqMu.Unlock()
	r := s.op1(t)
	synctest.Wait()
	if t[1] == "end" {
		return r
	}
	return r + s.effects(before)
}

func (s *vUuSess) op1(t []string) string {
	switch t[1] {
	case "end":
		// every pending GetXORMappedAddr returns at its deadline at the latest
		time.Sleep(2 * time.Hour)
		synctest.Wait()
		for i, w := range s.waiters {
			w.mu.Lock()
			d := w.done
			w.mu.Unlock()
			if !d {
				return fmt.Sprintf("end blocked=x%d", i)
			}
		}
		return s.baseOp(t)
	case "xoraddr": // xoraddr <server> <deadline ms>
		if len(t) != 4 {
			return "bad-op"
		}
		a, ok := vUmParseAddr(t[2])
		d, err := strconv.Atoi(t[3])
		if !ok || err != nil || d < 0 {
			return "bad-op"
		}
		w := &vUuWaiter{key: canonicalAddrPort(a.addrPort())}
		s.waiters = append(s.waiters, w)
		id := len(s.waiters) - 1
		go func() {
			addr, err := s.uni.GetXORMappedAddr(a.udpAddr(), time.Duration(d)*time.Millisecond)
			res := ""
			if err != nil {
				res = vUuErr(err)
			} else {
				res = "ok:" + vUuValueTok(addr)
			}
			w.mu.Lock()
			w.done, w.res = true, res
			w.mu.Unlock()
		}()
		synctest.Wait()
		s.reqMu.Lock()
		dst := append([]string{}, s.reqDst...)
		s.reqMu.Unlock()
		key := canonicalAddrPort(a.addrPort())
		if len(dst) == 0 {
			s.o.stat("xoraddr.noreq")
			return fmt.Sprintf("x%d noreq", id)
		}
		s.outstanding[key] = true
		s.o.stat("xoraddr.req")
		return fmt.Sprintf("x%d req:%s", id, strings.Join(dst, "+"))
	case "tick":
		if len(t) != 3 {
			return "bad-op"
		}
		ms, err := strconv.Atoi(t[2])
		if err != nil || ms < 0 {
			return "bad-op"
		}
		time.Sleep(time.Duration(ms) * time.Millisecond)
		s.o.stat("tick")
		return "ok"
	case "in":
		if len(t) != 6 || t[2] != "0" {
			return "bad-op"
		}
		if !strings.HasPrefix(t[4], "x") {
			return s.baseOp(t)
		}
		a, ok := vUmParseAddr(t[3])
		pid, err := strconv.Atoi(t[5])
		if !ok || err != nil {
			return "bad-op"
		}
		key := canonicalAddrPort(a.addrPort())
		var own *[stun.TransactionIDSize]byte
		s.reqMu.Lock()
		for i := len(s.reqs) - 1; i >= 0; i-- {
			if s.reqs[i].key == key {
				tid := s.reqs[i].tid
				own = &tid
				break
			}
		}
		s.reqMu.Unlock()
		data, ok := vUuPayload(t[4], pid, own)
		if !ok {
			return "bad-op"
		}
		s.fed[string(data)] = pid
		if s.muxes[0].IsClosed() {
			s.o.stat("in.muxclosed")
			return "none"
		}
		snap := s.snapshot()
		res := s.feedOne(0, data, a)
		k := t[4][:2]
		took := false
		for kk, v := range s.snapshot() {
			if v != nil && snap[kk] != v {
				took = true
			}
		}
		// observation statistics (the verdict is the monitor's): what the layer took although it is not the answer
		// to its own pending request (U1), and its own answer delivered to a connection as well (U2)
		if took {
			legit := s.outstanding[key] && own != nil && strings.HasPrefix(t[4], "xs:o:")
			switch {
			case legit:
				s.outstanding[key] = false
				s.lastAnswer[key] = strings.Split(t[4], ":")[2]
				if res != "none" {
					s.o.stat("obs.uni_both.own_answer_also_delivered_to_a_connection")
				}
			case !strings.HasPrefix(t[4], "xs:"):
				s.o.stat("obs.uni_consume.not_a_success_response")
			case !(strings.HasPrefix(t[4], "xs:o:") && own != nil):
				s.o.stat("obs.uni_consume.foreign_transaction_id")
			default:
				s.o.stat("obs.uni_consume.no_request_unanswered")
			}
		}
		s.o.stat("in." + k + map[bool]string{true: ".taken", false: ".passed"}[took] + map[bool]string{true: ".none", false: ".delivered"}[res == "none"])
		return res
	case "getconnforurl": // getconnforurl u:<ufrag> <url> <local>
		if len(t) != 5 || !strings.HasPrefix(t[2], "u:") {
			return "bad-op"
		}
		a, ok := vUmParseAddr(t[4])
		if !ok {
			return "bad-op"
		}
		pc, err := s.uni.GetConnForURL(t[2][2:], t[3], a.udpAddr())
		if err != nil {
			s.o.stat("getconnforurl." + vUmErr(err))
			return vUmErr(err)
		}
		c := vUmUnderlying(pc)
		if c == nil {
			return "err:handle-type"
		}
		s.handles = append(s.handles, &vUmHandle{pc: pc})
		s.o.stat("getconnforurl.ok")
		return fmt.Sprintf("h%d %s", len(s.handles)-1, s.connName(c))
	case "relayed":
		_, err := s.uni.GetRelayedAddr(&net.UDPAddr{IP: net.IPv4(10, 9, 0, 1), Port: 3478}, time.Second)
		if errors.Is(err, errNotImplemented) {
			return "err:notimpl"
		}
		return "unexpected"
	case "xstate":
		s.uni.mu.Lock()
		var ents []string
		for k, e := range s.uni.xorMappedMap {
			sig := "w"
			select {
			case <-e.waitAddrReceived:
				sig = "s"
			default:
			}
			v := "p"
			if e.addr != nil {
				v = vUuValueTok(e.addr)
			}
			ents = append(ents, fmt.Sprintf("%s=%s%s@%d", vUmTokenOfAddrPort(k), v, sig, e.expiresAt.Sub(s.t0).Milliseconds()))
		}
		s.uni.mu.Unlock()
		sort.Strings(ents)
		return fmt.Sprintf("t=%d [%s]", s.nowMs(), strings.Join(ents, ";"))
	case "closein":
		return "bad-op" // the window op of udpmux is not part of this component
	}
	return s.baseOp(t)
}

// ---------------------------------------------------------------------------------------------
// generator
// ---------------------------------------------------------------------------------------------

var vUuURLs = []string{"stun:h1:3478", "turn:h2:3478?transport=udp", "X", ""}

// vUuGen: every kind of datagram from every address of the session's pool (servers with a table entry, addresses a
// connection owns, both at once).  VERIF_UDPMUXUNI_STRICT=1 marks the sessions `s`: the driver then judges them by the
// strict reading of the monitor (uni_consume / uni_both become verdicts; notes/C12.md, observations U1/U2).
func vUuGen(o *vOut, r *vRand, thorough bool, _ []string, emit func(string)) {
	sessions, maxOps := 900, 40
	if thorough {
		sessions, maxOps = 12000, 160
	}
	sessions = vEnvInt("VERIF_UDPMUXUNI_SESSIONS", sessions)
	strict := ""
	if os.Getenv("VERIF_UDPMUXUNI_STRICT") != "" {
		strict = " s"
	}
	pid := 0
	for si := 0; si < sessions; si++ {
		ttl := []int{1000, 1000, 3000, 0}[r.intn(4)]
		emit(fmt.Sprintf("udpmuxuni new %d %d%s", r.intn(2), ttl, strict))
		nh := 0
		// servers and peers from one small pool: a peer may sit on the server's transport address, and the
		// same server is named through several raw forms
		nr := 2 + r.intn(4)
		pool := make([]string, nr)
		base := r.intn(len(vUmRemotes))
		for i := range pool {
			if r.chance(2, 3) {
				pool[i] = vUmRemotes[(base+i)%len(vUmRemotes)]
			} else {
				pool[i] = vUmRemotes[r.intn(len(vUmRemotes))]
			}
		}
		nsrv := 1 + r.intn(min(nr, 3))
		server := func() string { return pool[r.intn(nsrv)] }
		remote := func() string {
			if r.chance(1, 2) {
				return server()
			}
			return pool[r.intn(nr)]
		}
		nu := 1 + r.intn(2)
		ufr := func() string { return vUmUfrags[r.intn(nu+1)%len(vUmUfrags)] }
		url := func() string { return vUuURLs[r.intn(len(vUuURLs))] }
		local := func() string { return vUmLocalsU[r.intn(len(vUmLocalsU))] }
		hnd := func() string {
			if nh == 0 || r.chance(1, 40) {
				return fmt.Sprintf("h%d", nh+r.intn(2))
			}
			return fmt.Sprintf("h%d", nh-1-r.intn(min(nh, 3)))
		}
		sync := func() {
			if vUuCur != nil {
				nh = len(vUuCur.handles)
			}
		}
		deadline := func() int { return []int{0, 200, 500, 1000, 1500, 5000}[r.intn(6)] }
		val := func() int { return []int{0, 1, 7, 255, 42}[r.intn(5)] }
		inbound := func() {
			pid++
			src := remote()
			u := ufr()
			var kind string
			switch r.intn(20) {
			case 0, 1, 2, 3, 4, 5:
				kind = fmt.Sprintf("xs:o:%d", val())
			case 6, 7:
				kind = fmt.Sprintf("xs:w:%d", val())
			case 8:
				kind = "xn:" + []string{"o", "w"}[r.intn(2)]
			case 9:
				kind = "xb:" + []string{"o", "w"}[r.intn(2)]
			case 10:
				kind = fmt.Sprintf("xe:%s:%d", []string{"o", "w"}[r.intn(2)], val())
			case 11:
				kind = fmt.Sprintf("xi:%d", val())
			case 12:
				kind = fmt.Sprintf("xr:%d", val())
			case 13:
				kind = fmt.Sprintf("xq:%d:%s%s:rem", val(), u, []string{"", "X"}[r.intn(2)])
			case 14:
				kind = "ns"
			case 15:
				kind = "sn"
			case 16:
				kind = "sb"
			default:
				kind = "su:" + u + []string{"", "X", "stun"}[r.intn(3)] + ":rem"
			}
			emit(fmt.Sprintf("udpmuxuni in 0 %s %s %d", src, kind, pid))
		}
		n := 8 + r.intn(maxOps-8)
		for k := 0; k < n; k++ {
			switch x := r.intn(100); {
			case x < 15:
				emit(fmt.Sprintf("udpmuxuni xoraddr %s %d", server(), deadline()))
			case x < 48:
				inbound()
			case x < 58:
				emit(fmt.Sprintf("udpmuxuni tick %d", []int{0, 100, 200, 300, 500, 1000, 1001, 2500, 30000}[r.intn(9)]))
			case x < 66:
				emit(fmt.Sprintf("udpmuxuni getconnforurl u:%s %s %s", ufr(), url(), local()))
				sync()
			case x < 70:
				emit(fmt.Sprintf("udpmuxuni getconn u:%s %s", ufr(), local()))
				sync()
			case x < 79:
				emit(fmt.Sprintf("udpmuxuni write %s %s", hnd(), remote()))
			case x < 86:
				emit(fmt.Sprintf("udpmuxuni read %s", hnd()))
			case x < 89:
				emit(fmt.Sprintf("udpmuxuni remove u:%s%s", ufr(), []string{"", "", "X", "stun:h1:3478"}[r.intn(4)]))
			case x < 93:
				emit(fmt.Sprintf("udpmuxuni closeh %s", hnd()))
			case x < 97:
				emit("udpmuxuni xstate")
			case x < 98:
				emit("udpmuxuni relayed")
			case x < 99 && r.chance(1, 3):
				emit("udpmuxuni closemux")
			default:
				// a discovery round: request, (late?) answer, second call served from the table
				s := server()
				emit(fmt.Sprintf("udpmuxuni xoraddr %s %d", s, deadline()))
				if r.chance(1, 3) {
					emit(fmt.Sprintf("udpmuxuni tick %d", []int{100, 600, 1200}[r.intn(3)]))
				}
				pid++
				kind := fmt.Sprintf("xs:o:%d", val())
				emit(fmt.Sprintf("udpmuxuni in 0 %s %s %d", s, kind, pid))
				emit(fmt.Sprintf("udpmuxuni xoraddr %s %d", s, deadline()))
				k += 3
			}
		}
		emit("udpmuxuni xstate")
		emit("udpmuxuni tick 6000")
		for h := 0; h < nh && h < 4; h++ {
			emit(fmt.Sprintf("udpmuxuni read h%d", h))
		}
		emit("udpmuxuni end")
	}
}
