//go:build verif && go1.25

package ice

// Component "gather" (properties C18 and C09): ONE real agent inside a testing/synctest bubble with
//   * a FAKE transport.Net: scripted interface table, ListenUDP/ListenPacket honouring a
//     port-availability map and COUNTING opens/closes per socket, ResolveUDPAddr for the scripted
//     STUN/TURN hosts;
//   * fake UDP / TCP / srflx muxes that count GetConn handles per ufrag;
//   * a scripted STUN responder (requests are parked until `stunreply`, or time out);
//   * an injected turnClientFactory (Allocate parks until `turnreply`, or times out).
// After every operation synctest.Wait() lets all goroutines settle, then ONE canonical line is
// printed that Driver/Gather.lean (IceModel.Gather) must reproduce exactly and on which the spec
// monitors IceSpec.C18 / IceSpec.C09 are evaluated.
//
// ops (tokens after "gather"):
//   new <cfg> <ifaces>     cfg = k=v,... (see gParseCfg); ifaces = name:flags:addr+addr/... ("-" = none)
//   gather | restart | close | fail | release | adv <ms> | stunreply <k> <m> | turnreply <k> <ok|fail> | end
//   gather2 (two GatherCandidates queued behind a held task loop) | grg (GatherCandidates, Restart, GatherCandidates queued)
//   ifaces <table>  (continual gathering: replace the fake Net's interface table; zero virtual time)
//   hold            (re-arm the gate of the fake UDP mux: the next GetListenAddresses parks until `release`)
// cfg key tc=<one letter per TURN URL>: c = with credentials, u = empty username, p = empty password (absent = all c)
// cfg keys for continual gathering: cg=1 (WithContinualGatheringPolicy(GatherContinually)), mi=<ms> (WithNetworkMonitorInterval;
//   0 = the default 2 s); such sessions print one more field, lk=<lastKnownInterfaces, sorted>.
// addresses are tokens <class>.<idx>: g4 l4 k4 u4 (IPv4 global/loopback/link-local/unspecified),
//   g6 l6 k6 s6 c6 u6 (IPv6 global/loopback/link-local/site-local/IPv4-compatible/unspecified),
//   x4 x6 (external = server-reflexive), r4 (relayed).

import (
	"context"
	"errors"
	"fmt"
	"io"
	"net"
	"os"
	"runtime"
	"sort"
	"strconv"
	"strings"
	"sync"
	"sync/atomic"
	"syscall"
	"testing"
	"testing/synctest"
	"time"

	"github.com/pion/stun/v3"
	"github.com/pion/transport/v4"
	"github.com/pion/turn/v5"
)

func init() { vComponents["gather"] = &vComp{genR: gGen, exec: gExec} }

const (
	gUmuxPortBase = 7000
	gSmuxPortBase = 7100
	gTmuxPort     = 9000
	gTurnTimeout  = 8 * time.Second
	gStunTimeout  = 5 * time.Second
)

// ---------------------------------------------------------------------------------------------
// address tokens
// ---------------------------------------------------------------------------------------------

// gIP: the literal of an address token.  Every class is spread over its whole range: the index selects
// (index mod 4) one of four sub-ranges, and is itself stored in the low bits, so that the classifier gTok
// can recover (class, index) WITHOUT knowing which sub-range was used.
//
//	(index mod 4 =  0              1               2               3)
//	g4  10.1.0.x       192.168.7.x     172.16.5.x      8.8.4.x          private and public IPv4
//	l4  127.0.0.x      127.1.2.x       127.255.255.x   127.0.1.x        127.0.0.0/8
//	k4  169.254.0.x    169.254.200.x   169.254.255.x   169.254.1.x      169.254.0.0/16
//	g6  2001:db8::x    fd00::x         fc00::x         2a00:1450::x     global and unique local (fc00::/7)
//	k6  fe80::x        fe90::x         fea0::x         febf:ffff::x     fe80::/10
//	s6  fec0::x        fed0::x         fee0::x         feff:ffff::x     fec0::/10
//	c6  ::10.1.0.x     ::192.0.2.x     ::0.0.1.x       ::255.255.255.x  ::/96 without :: and ::1
func gIP(tok string) net.IP {
	cls, idxs, _ := strings.Cut(tok, ".")
	idx, _ := strconv.Atoi(idxs)
	b := byte(idx)
	v := idx % 4
	v6 := func(b0, b1, b2, b3 byte) net.IP {
		ip := make(net.IP, 16)
		ip[0], ip[1], ip[2], ip[3] = b0, b1, b2, b3
		ip[14], ip[15] = byte(idx>>8), byte(idx)
		return ip
	}
	ip4 := func(t [4][3]byte) net.IP { return net.IPv4(t[v][0], t[v][1], t[v][2], b).To4() }
	ip6 := func(t [4][4]byte) net.IP { return v6(t[v][0], t[v][1], t[v][2], t[v][3]) }
	switch cls {
	case "g4":
		return ip4([4][3]byte{{10, 1, 0}, {192, 168, 7}, {172, 16, 5}, {8, 8, 4}})
	case "l4":
		return ip4([4][3]byte{{127, 0, 0}, {127, 1, 2}, {127, 255, 255}, {127, 0, 1}})
	case "k4":
		return ip4([4][3]byte{{169, 254, 0}, {169, 254, 200}, {169, 254, 255}, {169, 254, 1}})
	case "u4":
		return net.IPv4(0, 0, 0, 0).To4()
	case "x4":
		return net.IPv4(203, 0, 113, b).To4()
	case "r4":
		return net.IPv4(198, 51, 100, b).To4()
	case "g6":
		return ip6([4][4]byte{{0x20, 0x01, 0x0d, 0xb8}, {0xfd, 0, 0, 0}, {0xfc, 0, 0, 0}, {0x2a, 0x00, 0x14, 0x50}})
	case "l6":
		return net.ParseIP("::1")
	case "k6":
		return ip6([4][4]byte{{0xfe, 0x80, 0, 0}, {0xfe, 0x90, 0, 0}, {0xfe, 0xa0, 0, 0}, {0xfe, 0xbf, 0xff, 0xff}})
	case "s6":
		return ip6([4][4]byte{{0xfe, 0xc0, 0, 0}, {0xfe, 0xd0, 0, 0}, {0xfe, 0xe0, 0, 0}, {0xfe, 0xff, 0xff, 0xff}})
	case "c6":
		ip := make(net.IP, 16)
		q := [][3]byte{{10, 1, 0}, {192, 0, 2}, {0, 0, 1}, {255, 255, 255}}[v]
		ip[12], ip[13], ip[14], ip[15] = q[0], q[1], q[2], b
		return ip
	case "u6":
		return net.ParseIP("::")
	case "x6":
		return net.ParseIP(fmt.Sprintf("2001:db8:ffff::%x", idx))
	}
	return nil
}

// gTok classifies an IP back to its token ("?" + text when it is none of ours).  It is an INDEPENDENT
// classifier by address ranges (RFC 4291 / 3879 / 3927 / 4193): it neither calls isSupportedIPv6Partial or
// any other function of the package under test, nor knows which literals gIP produces.
func gTok(ip net.IP) string {
	if ip == nil {
		return "nil"
	}
	if v4 := ip.To4(); v4 != nil {
		switch {
		case v4[0] == 0 && v4[1] == 0 && v4[2] == 0 && v4[3] == 0:
			return "u4.0"
		case v4[0] == 127:
			return fmt.Sprintf("l4.%d", v4[3])
		case v4[0] == 169 && v4[1] == 254:
			return fmt.Sprintf("k4.%d", v4[3])
		case v4[0] == 203 && v4[1] == 0 && v4[2] == 113:
			return fmt.Sprintf("x4.%d", v4[3])
		case v4[0] == 198 && v4[1] == 51 && v4[2] == 100:
			return fmt.Sprintf("r4.%d", v4[3])
		case v4[0] == 192 && v4[1] == 0 && v4[2] == 2:
			return "?" + ip.String() // the scripted STUN / TURN servers
		case v4[0] >= 224:
			return "?" + ip.String() // multicast / reserved
		}
		return fmt.Sprintf("g4.%d", v4[3]) // any other unicast IPv4 address, private or public
	}
	ip = ip.To16()
	if ip == nil {
		return "?bad"
	}
	low := int(ip[14])<<8 | int(ip[15])
	zeros := func(a, b int) bool {
		for i := a; i < b; i++ {
			if ip[i] != 0 {
				return false
			}
		}
		return true
	}
	switch {
	case zeros(0, 16):
		return "u6.0"
	case zeros(0, 15) && ip[15] == 1:
		return "l6.1"
	case zeros(0, 12):
		return fmt.Sprintf("c6.%d", ip[15]) // ::/96, IPv4-compatible
	case ip[0] == 0xfe && ip[1]&0xc0 == 0x80:
		return fmt.Sprintf("k6.%d", low) // fe80::/10
	case ip[0] == 0xfe && ip[1] >= 0xc0:
		return fmt.Sprintf("s6.%d", low) // fec0::/10
	case ip[0] == 0xff:
		return "?" + ip.String() // multicast
	case ip[0] == 0x20 && ip[1] == 0x01 && ip[2] == 0x0d && ip[3] == 0xb8 && ip[4] == 0xff && ip[5] == 0xff:
		return fmt.Sprintf("x6.%d", low)
	case ip[0] == 0x20 && ip[1] == 0x01 && ip[2] == 0x0d && ip[3] == 0xb8 && ip[4] == 0 && ip[5] == 0x53:
		return "?" + ip.String() // the scripted STUN / TURN servers
	}
	return fmt.Sprintf("g6.%d", low) // any other unicast IPv6 address: global or unique local (fc00::/7)
}

func gTokOfString(s string) string {
	if i := strings.IndexByte(s, '%'); i >= 0 {
		s = s[:i]
	}
	ip := net.ParseIP(s)
	if ip == nil {
		return "?" + s
	}
	return gTok(ip)
}

func gIs6Tok(tok string) bool { return len(tok) > 1 && tok[1] == '6' }

// ---------------------------------------------------------------------------------------------
// configuration
// ---------------------------------------------------------------------------------------------

type gIface struct {
	name  string
	up    bool
	loop  bool
	addrs []string
}

type gCfg struct {
	ct        string   // candidate types in order: letters h s r ("-" = default)
	nt        []string // u4 u6 t4 t6; empty = all
	pmin      int
	pmax      int
	rifSet    bool
	rif       map[string]bool
	ripSet    bool
	rip       map[string]bool
	lo        bool
	md        bool
	um        []string // udp mux listen addresses (nil = no mux)
	umSet     bool
	tm        string // "" none, "any", or address
	sm        []string
	smSet     bool
	su        int
	tu        int
	busy      map[string]bool // "<addrtok>:<port>"
	tf        int             // 0 ok, 1 factory fails, 2 Listen fails
	tc        string          // per TURN URL: c = credentials, u = empty username, p = empty password ("" = all c)
	rr        string          // relay rewrite: "" | drop | rep | app
	sr        string          // srflx rewrite: "" | rep | app | drop
	hr        string          // host rewrite rule: "" | <rep|app>:<pinned local|->:<iface|->:<ext+ext+...>
	hold      bool
	cg        bool // continual gathering policy
	mi        int  // network monitor interval in ms (0 = default)
	raw       string
	rawIfaces string
}

func gList(s string) []string {
	if s == "" || s == "-" {
		return nil
	}
	return strings.Split(s, "+")
}

func gSet(s string) (bool, map[string]bool) {
	m := map[string]bool{}
	if s == "" || s == "-" {
		return false, m
	}
	if s == "n" {
		return true, m
	}
	for _, x := range strings.Split(s, "+") {
		m[x] = true
	}
	return true, m
}

func gParseCfg(s string) *gCfg {
	m := vKvs(s)
	c := &gCfg{raw: s, ct: m["ct"], busy: map[string]bool{}}
	c.nt = gList(m["nt"])
	c.pmin, _ = strconv.Atoi(m["pmin"])
	c.pmax, _ = strconv.Atoi(m["pmax"])
	c.rifSet, c.rif = gSet(m["rif"])
	c.ripSet, c.rip = gSet(m["rip"])
	c.lo = m["lo"] == "1"
	c.md = m["md"] == "1"
	if v, ok := m["um"]; ok && v != "-" {
		c.umSet, c.um = true, gList(v)
	}
	if v, ok := m["sm"]; ok && v != "-" {
		c.smSet, c.sm = true, gList(v)
	}
	if v := m["tm"]; v != "" && v != "-" {
		c.tm = v
	}
	c.su, _ = strconv.Atoi(m["su"])
	c.tu, _ = strconv.Atoi(m["tu"])
	for _, b := range gList(m["busy"]) {
		c.busy[b] = true
	}
	c.tf, _ = strconv.Atoi(m["tf"])
	if v := m["tc"]; v != "-" {
		c.tc = v
	}
	if v := m["rr"]; v != "-" {
		c.rr = v
	}
	if v := m["sr"]; v != "-" {
		c.sr = v
	}
	if v := m["hr"]; v != "-" {
		c.hr = v
	}
	c.hold = m["hold"] == "1"
	c.cg = m["cg"] == "1"
	c.mi, _ = strconv.Atoi(m["mi"])
	return c
}

func gParseIfaces(s string) []gIface {
	var out []gIface
	if s == "-" || s == "" {
		return out
	}
	for _, part := range strings.Split(s, "/") {
		f := strings.Split(part, ":")
		if len(f) != 3 {
			continue
		}
		out = append(out, gIface{name: "if" + f[0], up: strings.Contains(f[1], "u"), loop: strings.Contains(f[1], "l"), addrs: gList(f[2])})
	}
	return out
}

// ---------------------------------------------------------------------------------------------
// the fake world
// ---------------------------------------------------------------------------------------------

type gRes struct {
	kind   string // sk um tm sm tc al
	tag    string // generation tag
	open   bool
	extra  int // redundant closes
	ipTok  string
	port   int
	serial int
}

type gPending struct {
	kind  string // S or T
	gen   int
	key   string
	reply chan string // "ok:<m>" / "fail"
	sock  *gSock
	from  net.Addr
	tid   [stun.TransactionIDSize]byte
}

type gWorld struct {
	mu       sync.Mutex
	cfg      *gCfg
	ifaces   []gIface
	gen      int
	ufrags   map[string]int // ufrag -> generation
	res      []*gRes
	opens    int
	closes   int
	redund   int
	bound    map[string]*gSock // "<iptok>:<port>" -> socket
	nextPort int
	pending  []*gPending
	muxGets  map[string]int
	holdCh   chan struct{}
	held     int
	events   []string
	nilsOp   int
	nilsGen  map[int]int
	late     int
	failed   int
	a        *Agent
	closed   bool
	started  bool
	closeRet bool
	epoch    time.Time
}

func (w *gWorld) tagOfUfrag(u string) string {
	if g, ok := w.ufrags[u]; ok {
		return strconv.Itoa(g)
	}
	return "x"
}

func (w *gWorld) newRes(kind, tag string) *gRes {
	r := &gRes{kind: kind, tag: tag, open: true, serial: len(w.res)}
	w.res = append(w.res, r)
	w.opens++
	return r
}

func (w *gWorld) release(r *gRes) {
	w.mu.Lock()
	defer w.mu.Unlock()
	if r.open {
		r.open = false
		w.closes++
	} else {
		r.extra++
		w.redund++
	}
}

// ---- sockets ----

type gDgram struct {
	from net.Addr
	data []byte
}

type gSock struct {
	w       *gWorld
	res     *gRes
	laddr   *net.UDPAddr
	in      chan gDgram
	closed  chan struct{}
	once    sync.Once
	dmu     sync.Mutex
	rdl     time.Time
	dlWake  chan struct{}
	bindKey string
	isAlloc bool
}

var errGTimeout = &gTimeoutErr{}

type gTimeoutErr struct{}

func (*gTimeoutErr) Error() string   { return "i/o timeout" }
func (*gTimeoutErr) Timeout() bool   { return true }
func (*gTimeoutErr) Temporary() bool { return true }

func (c *gSock) ReadFrom(b []byte) (int, net.Addr, error) {
	for {
		c.dmu.Lock()
		dl := c.rdl
		wake := c.dlWake
		c.dmu.Unlock()
		var tc <-chan time.Time
		var tm *time.Timer
		if !dl.IsZero() {
			d := time.Until(dl)
			if d <= 0 {
				select {
				case <-c.closed:
					return 0, nil, net.ErrClosed
				default:
				}
				return 0, nil, errGTimeout
			}
			tm = time.NewTimer(d)
			tc = tm.C
		}
		select {
		case d := <-c.in:
			if tm != nil {
				tm.Stop()
			}
			return copy(b, d.data), d.from, nil
		case <-c.closed:
			if tm != nil {
				tm.Stop()
			}
			return 0, nil, net.ErrClosed
		case <-tc:
			return 0, nil, errGTimeout
		case <-wake:
			if tm != nil {
				tm.Stop()
			}
		}
	}
}

func (c *gSock) WriteTo(b []byte, a net.Addr) (int, error) {
	select {
	case <-c.closed:
		return 0, net.ErrClosed
	default:
	}
	ua, ok := a.(*net.UDPAddr)
	if !ok {
		return len(b), nil
	}
	c.w.onDatagram(c, ua, b)
	return len(b), nil
}

func (c *gSock) Close() error {
	first := false
	c.once.Do(func() {
		first = true
		close(c.closed)
		c.w.mu.Lock()
		if c.bindKey != "" && c.w.bound[c.bindKey] == c {
			delete(c.w.bound, c.bindKey)
		}
		c.w.mu.Unlock()
	})
	c.w.release(c.res)
	if !first {
		return net.ErrClosed
	}
	return nil
}

func (c *gSock) LocalAddr() net.Addr  { return c.laddr }
func (c *gSock) RemoteAddr() net.Addr { return nil }
func (c *gSock) SetDeadline(t time.Time) error {
	return c.SetReadDeadline(t)
}
func (c *gSock) SetReadDeadline(t time.Time) error {
	c.dmu.Lock()
	c.rdl = t
	old := c.dlWake
	c.dlWake = make(chan struct{})
	c.dmu.Unlock()
	close(old)
	return nil
}
func (c *gSock) SetWriteDeadline(time.Time) error { return nil }
func (c *gSock) SetReadBuffer(int) error          { return nil }
func (c *gSock) SetWriteBuffer(int) error         { return nil }
func (c *gSock) Read(b []byte) (int, error) {
	n, _, err := c.ReadFrom(b)
	return n, err
}
func (c *gSock) ReadFromUDP(b []byte) (int, *net.UDPAddr, error) {
	n, a, err := c.ReadFrom(b)
	ua, _ := a.(*net.UDPAddr)
	return n, ua, err
}
func (c *gSock) ReadMsgUDP(b, _ []byte) (int, int, int, *net.UDPAddr, error) {
	n, a, err := c.ReadFromUDP(b)
	return n, 0, 0, a, err
}
func (c *gSock) Write(b []byte) (int, error) { return len(b), nil }
func (c *gSock) WriteToUDP(b []byte, a *net.UDPAddr) (int, error) {
	return c.WriteTo(b, a)
}
func (c *gSock) WriteMsgUDP(b, _ []byte, a *net.UDPAddr) (int, int, error) {
	n, err := c.WriteTo(b, a)
	return n, 0, err
}

func (w *gWorld) newSock(kind, tag string, laddr *net.UDPAddr, bindKey string) *gSock {
	s := &gSock{w: w, laddr: laddr, in: make(chan gDgram, 16), closed: make(chan struct{}), dlWake: make(chan struct{}), bindKey: bindKey}
	s.res = w.newRes(kind, tag)
	s.res.ipTok = gTok(laddr.IP)
	s.res.port = laddr.Port
	return s
}

// ---- transport.Net ----

type gNet struct {
	transport.Net
	w *gWorld
}

func (n *gNet) Interfaces() ([]*transport.Interface, error) {
	var out []*transport.Interface
	n.w.mu.Lock()
	tbl := n.w.ifaces
	n.w.mu.Unlock()
	for i, f := range tbl {
		fl := net.Flags(0)
		if f.up {
			fl |= net.FlagUp
		}
		if f.loop {
			fl |= net.FlagLoopback
		}
		ifc := transport.NewInterface(net.Interface{Index: i + 1, MTU: 1500, Name: f.name, Flags: fl})
		for _, a := range f.addrs {
			ip := gIP(a)
			bits := 128
			if ip.To4() != nil {
				bits = 32
			}
			ifc.AddAddress(&net.IPNet{IP: ip, Mask: net.CIDRMask(bits/2, bits)})
		}
		out = append(out, ifc)
	}
	return out, nil
}

func (n *gNet) hasAddr(tok string) bool {
	n.w.mu.Lock()
	tbl := n.w.ifaces
	n.w.mu.Unlock()
	for _, f := range tbl {
		for _, a := range f.addrs {
			if a == tok {
				return true
			}
		}
	}
	return false
}

func (n *gNet) ListenUDP(network string, laddr *net.UDPAddr) (transport.UDPConn, error) {
	c, err := n.listen(network, laddr)
	if err != nil {
		return nil, err
	}
	return c, nil
}

func (n *gNet) listen(network string, laddr *net.UDPAddr) (*gSock, error) {
	w := n.w
	ip := laddr.IP
	if ip == nil {
		if network == "udp6" {
			ip = net.IPv6unspecified
		} else {
			ip = net.IPv4zero.To4()
		}
	}
	if ip.IsMulticast() {
		return nil, &net.OpError{Op: "listen", Net: network, Err: errors.New("multicast not supported by the fake net")}
	}
	tok := gTok(ip)
	if !ip.IsUnspecified() && !n.hasAddr(tok) {
		return nil, &net.OpError{Op: "listen", Net: network, Err: os.NewSyscallError("bind", syscall.EADDRNOTAVAIL)}
	}
	w.mu.Lock()
	defer w.mu.Unlock()
	port := laddr.Port
	if port == 0 {
		for {
			w.nextPort++
			port = 49152 + w.nextPort
			k := tok + ":" + strconv.Itoa(port)
			if !w.cfg.busy[k] && w.bound[k] == nil {
				break
			}
		}
	}
	key := tok + ":" + strconv.Itoa(port)
	if w.cfg.busy[key] || w.bound[key] != nil {
		return nil, &net.OpError{Op: "listen", Net: network, Err: os.NewSyscallError("bind", syscall.EADDRINUSE)}
	}
	s := &gSock{w: w, laddr: &net.UDPAddr{IP: ip, Port: port, Zone: laddr.Zone}, in: make(chan gDgram, 16),
		closed: make(chan struct{}), dlWake: make(chan struct{}), bindKey: key}
	s.res = w.newRes("sk", strconv.Itoa(w.gen))
	s.res.ipTok, s.res.port = tok, port
	w.bound[key] = s
	return s, nil
}

func (n *gNet) ListenPacket(network, address string) (net.PacketConn, error) {
	host, ps, err := net.SplitHostPort(address)
	if err != nil {
		return nil, err
	}
	port, _ := strconv.Atoi(ps)
	var ip net.IP
	if host != "" {
		if i := strings.IndexByte(host, '%'); i >= 0 {
			host = host[:i]
		}
		ip = net.ParseIP(host)
		if ip4 := ip.To4(); ip4 != nil {
			ip = ip4
		}
	}
	nw := "udp4"
	if strings.HasSuffix(network, "6") {
		nw = "udp6"
	}
	return n.listen(nw, &net.UDPAddr{IP: ip, Port: port})
}

// hosts: stun<k>.test / turn<k>.test
func (n *gNet) ResolveUDPAddr(network, address string) (*net.UDPAddr, error) {
	host, ps, err := net.SplitHostPort(address)
	if err != nil {
		return nil, err
	}
	port, _ := strconv.Atoi(ps)
	if ip := net.ParseIP(host); ip != nil {
		return &net.UDPAddr{IP: ip, Port: port}, nil
	}
	var k int
	base := 100
	switch {
	case strings.HasPrefix(host, "stun"):
		k, _ = strconv.Atoi(strings.TrimSuffix(strings.TrimPrefix(host, "stun"), ".test"))
	case strings.HasPrefix(host, "turn"):
		k, _ = strconv.Atoi(strings.TrimSuffix(strings.TrimPrefix(host, "turn"), ".test"))
		base = 150
	default:
		return nil, &net.DNSError{Err: "no such host", Name: host, IsNotFound: true}
	}
	if network == "udp6" {
		return &net.UDPAddr{IP: net.ParseIP(fmt.Sprintf("2001:db8:53::%x", base+k)), Port: port}, nil
	}
	return &net.UDPAddr{IP: net.IPv4(192, 0, 2, byte(base+k)).To4(), Port: port}, nil
}

func (n *gNet) ResolveTCPAddr(network, address string) (*net.TCPAddr, error) {
	u, err := n.ResolveUDPAddr("udp4", address)
	if err != nil {
		return nil, err
	}
	return &net.TCPAddr{IP: u.IP, Port: u.Port}, nil
}

func (n *gNet) ResolveIPAddr(_, address string) (*net.IPAddr, error) {
	if ip := net.ParseIP(address); ip != nil {
		return &net.IPAddr{IP: ip}, nil
	}
	return nil, &net.DNSError{Err: "no such host", Name: address, IsNotFound: true}
}

func (n *gNet) ListenTCP(string, *net.TCPAddr) (transport.TCPListener, error) {
	return nil, transport.ErrNotSupported
}
func (n *gNet) Dial(string, string) (net.Conn, error) { return nil, transport.ErrNotSupported }
func (n *gNet) DialUDP(string, *net.UDPAddr, *net.UDPAddr) (transport.UDPConn, error) {
	return nil, transport.ErrNotSupported
}
func (n *gNet) DialTCP(string, *net.TCPAddr, *net.TCPAddr) (transport.TCPConn, error) {
	return nil, transport.ErrNotSupported
}
func (n *gNet) InterfaceByIndex(int) (*transport.Interface, error) {
	return nil, transport.ErrInterfaceNotFound
}
func (n *gNet) InterfaceByName(string) (*transport.Interface, error) {
	return nil, transport.ErrInterfaceNotFound
}
func (n *gNet) CreateDialer(*net.Dialer) transport.Dialer                   { return nil }
func (n *gNet) CreateListenConfig(*net.ListenConfig) transport.ListenConfig { return nil }

// ---- STUN responder ----

func gURLIndex(ip net.IP) (int, bool) {
	if v4 := ip.To4(); v4 != nil {
		if v4[0] == 192 && v4[1] == 0 && v4[2] == 2 && v4[3] >= 100 {
			return int(v4[3]) - 100, true
		}
		return 0, false
	}
	ip = ip.To16()
	if ip != nil && ip[0] == 0x20 && ip[1] == 0x01 && ip[2] == 0x0d && ip[3] == 0xb8 && ip[4] == 0 && ip[5] == 0x53 {
		return int(ip[15]) - 100, true
	}
	return 0, false
}

func (w *gWorld) onDatagram(s *gSock, dst *net.UDPAddr, b []byte) {
	if !stun.IsMessage(b) {
		return
	}
	k, ok := gURLIndex(dst.IP)
	if !ok {
		return
	}
	m := &stun.Message{Raw: append([]byte{}, b...)}
	if err := m.Decode(); err != nil || m.Type != stun.BindingRequest {
		return
	}
	nw := "u4"
	if dst.IP.To4() == nil {
		nw = "u6"
	}
	w.mu.Lock()
	gen, _ := strconv.Atoi(s.res.tag)
	p := &gPending{kind: "S", gen: gen, key: fmt.Sprintf("%d.%s.%s", k, nw, s.res.ipTok), sock: s, from: dst, tid: m.TransactionID}
	w.pending = append(w.pending, p)
	w.mu.Unlock()
}

func gStunReply(tid [stun.TransactionIDSize]byte, ip net.IP, port int) []byte {
	m, err := stun.Build(stun.NewTransactionIDSetter(tid), stun.BindingSuccess,
		&stun.XORMappedAddress{IP: ip, Port: port})
	if err != nil {
		panic(err)
	}
	return m.Raw
}

// ---- fake muxes ----

type gHandle struct {
	w      *gWorld
	res    *gRes
	laddr  net.Addr
	closed chan struct{}
	once   sync.Once
}

func (h *gHandle) ReadFrom([]byte) (int, net.Addr, error) {
	<-h.closed
	return 0, nil, io.EOF
}
func (h *gHandle) WriteTo(b []byte, _ net.Addr) (int, error) { return len(b), nil }
func (h *gHandle) Close() error {
	h.once.Do(func() { close(h.closed) })
	h.w.release(h.res)
	return nil
}
func (h *gHandle) LocalAddr() net.Addr              { return h.laddr }
func (h *gHandle) SetDeadline(time.Time) error      { return nil }
func (h *gHandle) SetReadDeadline(time.Time) error  { return nil }
func (h *gHandle) SetWriteDeadline(time.Time) error { return nil }

func (w *gWorld) newHandle(kind, ufrag string, laddr net.Addr) *gHandle {
	w.mu.Lock()
	defer w.mu.Unlock()
	tag := w.tagOfUfrag(ufrag)
	w.muxGets[kind+tag]++
	return &gHandle{w: w, res: w.newRes(kind, tag), laddr: laddr, closed: make(chan struct{})}
}

type gUDPMux struct {
	w     *gWorld
	kind  string
	addrs []net.Addr
	gate  bool
}

func (m *gUDPMux) Close() error { return nil }
func (m *gUDPMux) GetConn(ufrag string, addr net.Addr) (net.PacketConn, error) {
	return m.w.newHandle(m.kind, ufrag, addr), nil
}
func (m *gUDPMux) RemoveConnByUfrag(string) {}
func (m *gUDPMux) GetListenAddresses() []net.Addr {
	if m.gate {
		m.w.mu.Lock()
		ch := m.w.holdCh
		if ch != nil {
			m.w.held++
		}
		m.w.mu.Unlock()
		if ch != nil {
			<-ch
		}
	}
	return m.addrs
}

// srflx mux additions
func (m *gUDPMux) GetRelayedAddr(net.Addr, time.Duration) (*net.Addr, error) {
	return nil, errors.New("not implemented")
}
func (m *gUDPMux) GetConnForURL(ufrag string, _ string, addr net.Addr) (net.PacketConn, error) {
	return m.w.newHandle(m.kind, ufrag, addr), nil
}
func (m *gUDPMux) GetXORMappedAddr(server net.Addr, d time.Duration) (*stun.XORMappedAddress, error) {
	return m.GetXORMappedAddrContext(context.Background(), server, d)
}
func (m *gUDPMux) GetXORMappedAddrContext(ctx context.Context, server net.Addr, d time.Duration) (*stun.XORMappedAddress, error) {
	ua, _ := server.(*net.UDPAddr)
	k, _ := gURLIndex(ua.IP)
	nw := "u4"
	if ua.IP.To4() == nil {
		nw = "u6"
	}
	w := m.w
	w.mu.Lock()
	p := &gPending{kind: "S", gen: w.gen, key: fmt.Sprintf("%d.%s.mux", k, nw), reply: make(chan string, 1)}
	w.pending = append(w.pending, p)
	w.mu.Unlock()
	tm := time.NewTimer(d)
	defer tm.Stop()
	defer w.dropPending(p)
	select {
	case r := <-p.reply:
		mi, _ := strconv.Atoi(strings.TrimPrefix(r, "ok:"))
		tok := fmt.Sprintf("x4.%d", mi)
		if nw == "u6" {
			tok = fmt.Sprintf("x6.%d", mi)
		}
		return &stun.XORMappedAddress{IP: gIP(tok), Port: 6000 + mi}, nil
	case <-ctx.Done():
		return nil, ctx.Err()
	case <-tm.C:
		return nil, errGTimeout
	}
}

func (w *gWorld) dropPending(p *gPending) {
	w.mu.Lock()
	defer w.mu.Unlock()
	for i, q := range w.pending {
		if q == p {
			w.pending = append(w.pending[:i], w.pending[i+1:]...)
			return
		}
	}
}

type gTCPMux struct {
	w     *gWorld
	laddr *net.TCPAddr
}

func (m *gTCPMux) Close() error { return nil }
func (m *gTCPMux) GetConnByUfrag(ufrag string, isIPv6 bool, local net.IP) (net.PacketConn, error) {
	return m.w.newHandle("tm", ufrag, &net.TCPAddr{IP: local, Port: gTmuxPort}), nil
}
func (m *gTCPMux) RemoveConnByUfrag(string) {}
func (m *gTCPMux) LocalAddr() net.Addr      { return m.laddr }

// ---- TURN client ----

type gTurn struct {
	w    *gWorld
	res  *gRes
	conn net.PacketConn
	key  string
}

func (t *gTurn) Listen() error {
	if t.w.cfg.tf == 2 {
		return errors.New("fake turn: listen failed")
	}
	return nil
}

func (t *gTurn) Allocate() (net.PacketConn, error) {
	w := t.w
	w.mu.Lock()
	gen, _ := strconv.Atoi(t.res.tag)
	p := &gPending{kind: "T", gen: gen, key: t.key, reply: make(chan string, 1)}
	w.pending = append(w.pending, p)
	w.mu.Unlock()
	tm := time.NewTimer(gTurnTimeout)
	defer tm.Stop()
	defer w.dropPending(p)
	select {
	case r := <-p.reply:
		if !strings.HasPrefix(r, "ok:") {
			return nil, errors.New("fake turn: allocation refused")
		}
		mi, _ := strconv.Atoi(strings.TrimPrefix(r, "ok:"))
		w.mu.Lock()
		s := w.newSock("al", t.res.tag, &net.UDPAddr{IP: gIP(fmt.Sprintf("r4.%d", mi)), Port: 6500 + mi}, "")
		w.mu.Unlock()
		return s, nil
	case <-tm.C:
		return nil, errGTimeout
	}
}

func (t *gTurn) Close() { t.w.release(t.res) }

func (w *gWorld) turnFactory(cfg *turn.ClientConfig) (turnClient, error) {
	if w.cfg.tf == 1 {
		return nil, errors.New("fake turn: factory failed")
	}
	k := 0
	host, _, _ := net.SplitHostPort(cfg.TURNServerAddr)
	if strings.HasPrefix(host, "turn") {
		k, _ = strconv.Atoi(strings.TrimSuffix(strings.TrimPrefix(host, "turn"), ".test"))
	}
	base := "?"
	tag := strconv.Itoa(w.gen)
	if s, ok := cfg.Conn.(*gSock); ok {
		base = s.res.ipTok
		tag = s.res.tag
	}
	w.mu.Lock()
	defer w.mu.Unlock()
	return &gTurn{w: w, res: w.newRes("tc", tag), conn: cfg.Conn, key: fmt.Sprintf("%d.u4.%s", k, base)}, nil
}

// ---------------------------------------------------------------------------------------------
// the agent under test
// ---------------------------------------------------------------------------------------------

func gUfragOf(gen int) string { return fmt.Sprintf("gen%dufragXXXXXXXX", gen) }
func gPwdOf(gen int) string   { return fmt.Sprintf("gen%dpasswordXXXXXXXXXXXXXXXXXXXXXX", gen) }

func gNetType(s string) NetworkType {
	switch s {
	case "u4":
		return NetworkTypeUDP4
	case "u6":
		return NetworkTypeUDP6
	case "t4":
		return NetworkTypeTCP4
	case "t6":
		return NetworkTypeTCP6
	}
	return 0
}

func gNetTok(n NetworkType) string {
	switch n {
	case NetworkTypeUDP4:
		return "u4"
	case NetworkTypeUDP6:
		return "u6"
	case NetworkTypeTCP4:
		return "t4"
	case NetworkTypeTCP6:
		return "t6"
	}
	return "??"
}

func (w *gWorld) newAgent() (*Agent, error) {
	c := w.cfg
	ac := &AgentConfig{
		MulticastDNSMode: MulticastDNSModeDisabled,
		Net:              &gNet{w: w},
		PortMin:          uint16(c.pmin),
		PortMax:          uint16(c.pmax),
		IncludeLoopback:  c.lo,
		LocalUfrag:       gUfragOf(0),
		LocalPwd:         gPwdOf(0),
	}
	disc, fail, ka, ci := time.Second, time.Second, 2*time.Second, 200*time.Millisecond
	ac.DisconnectedTimeout, ac.FailedTimeout, ac.KeepaliveInterval, ac.CheckInterval = &disc, &fail, &ka, &ci
	st := gStunTimeout
	ac.STUNGatherTimeout = &st
	for _, ch := range c.ct {
		switch ch {
		case 'h':
			ac.CandidateTypes = append(ac.CandidateTypes, CandidateTypeHost)
		case 's':
			ac.CandidateTypes = append(ac.CandidateTypes, CandidateTypeServerReflexive)
		case 'r':
			ac.CandidateTypes = append(ac.CandidateTypes, CandidateTypeRelay)
		}
	}
	for _, n := range c.nt {
		ac.NetworkTypes = append(ac.NetworkTypes, gNetType(n))
	}
	if c.rifSet {
		rej := c.rif
		ac.InterfaceFilter = func(name string) bool { return !rej[strings.TrimPrefix(name, "if")] }
	}
	if c.ripSet {
		rej := c.rip
		ac.IPFilter = func(ip net.IP) bool { return !rej[gTok(ip)] }
	}
	if c.umSet {
		m := &gUDPMux{w: w, kind: "um", gate: true}
		for i, a := range c.um {
			_ = i
			m.addrs = append(m.addrs, &net.UDPAddr{IP: gIP(a), Port: gUmuxPortBase})
		}
		ac.UDPMux = m
	}
	if c.smSet {
		m := &gUDPMux{w: w, kind: "sm"}
		for i, a := range c.sm {
			_ = i
			m.addrs = append(m.addrs, &net.UDPAddr{IP: gIP(a), Port: gSmuxPortBase})
		}
		ac.UDPMuxSrflx = m
	}
	if c.tm != "" {
		m := &gTCPMux{w: w, laddr: &net.TCPAddr{Port: gTmuxPort}}
		if c.tm != "any" {
			m.laddr.IP = gIP(c.tm)
		}
		ac.TCPMux = m
	}
	for k := 0; k < c.su; k++ {
		ac.Urls = append(ac.Urls, &stun.URI{Scheme: stun.SchemeTypeSTUN, Host: fmt.Sprintf("stun%d.test", k), Port: 3478, Proto: stun.ProtoTypeUDP})
	}
	for k := 0; k < c.tu; k++ {
		user, pass := "user", "pass"
		if k < len(c.tc) {
			switch c.tc[k] {
			case 'u':
				user = ""
			case 'p':
				pass = ""
			}
		}
		ac.Urls = append(ac.Urls, &stun.URI{Scheme: stun.SchemeTypeTURN, Host: fmt.Sprintf("turn%d.test", k), Port: 3478,
			Proto: stun.ProtoTypeUDP, Username: user, Password: pass})
	}
	var opts []AgentOption
	var rules []AddressRewriteRule
	switch c.rr {
	case "drop":
		// the documented deny rule: replace mode, EMPTY External list, limited to IPv4 networks: it compiles to an IPv4
		// catch-all with NO external address, i.e. "drop the matched relay candidate". (Until /repo 446b13f the option
		// rejected an empty list (F16) and this shape was installed through the F15 quirk - an IPv6 external excluded by
		// Networks; since /repo d6a4f83 such a rule matches nothing. The compiled mapping is the same as before.)
		rules = append(rules, AddressRewriteRule{AsCandidateType: CandidateTypeRelay,
			Mode: AddressRewriteReplace, Networks: []NetworkType{NetworkTypeUDP4}})
	case "rep":
		rules = append(rules, AddressRewriteRule{External: []string{gIP("x4.90").String()}, AsCandidateType: CandidateTypeRelay, Mode: AddressRewriteReplace})
	case "app":
		rules = append(rules, AddressRewriteRule{External: []string{gIP("x4.90").String()}, AsCandidateType: CandidateTypeRelay, Mode: AddressRewriteAppend})
	}
	switch c.sr {
	case "rep":
		rules = append(rules, AddressRewriteRule{External: []string{gIP("x4.80").String()}, AsCandidateType: CandidateTypeServerReflexive, Mode: AddressRewriteReplace})
	case "rep2":
		rules = append(rules, AddressRewriteRule{External: []string{gIP("x4.80").String(), gIP("x4.81").String()}, AsCandidateType: CandidateTypeServerReflexive, Mode: AddressRewriteReplace})
	case "app":
		rules = append(rules, AddressRewriteRule{External: []string{gIP("x4.80").String()}, AsCandidateType: CandidateTypeServerReflexive, Mode: AddressRewriteAppend})
	case "drop":
		// the documented deny rule (empty External list), as for the relay rule above
		rules = append(rules, AddressRewriteRule{AsCandidateType: CandidateTypeServerReflexive,
			Mode: AddressRewriteReplace, Networks: []NetworkType{NetworkTypeUDP4}})
	}
	if strings.HasPrefix(c.sr, "pin") {
		// a srflx rule pinned to the local wildcard address: External = 1..3 addresses in the given order,
		// possibly of mixed families and including a location-tracked (IPv6 link-local) one
		mode, exts, _ := strings.Cut(c.sr, ":")
		r := AddressRewriteRule{Local: "0.0.0.0", AsCandidateType: CandidateTypeServerReflexive, Mode: AddressRewriteReplace}
		if mode == "pina" {
			r.Mode = AddressRewriteAppend
		}
		for _, e := range gList(exts) {
			r.External = append(r.External, gIP(e).String())
		}
		rules = append(rules, r)
	}
	if c.hr != "" {
		// a HOST rewrite rule: replace / append, catch-all or pinned to a local address, optionally scoped to
		// one interface; the socket stays on the local address, the candidate publishes the external one
		f := strings.Split(c.hr, ":")
		if len(f) == 4 {
			r := AddressRewriteRule{AsCandidateType: CandidateTypeHost, Mode: AddressRewriteReplace}
			if f[0] == "app" {
				r.Mode = AddressRewriteAppend
			}
			if f[1] != "-" {
				r.Local = gIP(f[1]).String()
			}
			if f[2] != "-" {
				r.Iface = "if" + f[2]
			}
			for _, e := range gList(f[3]) {
				r.External = append(r.External, gIP(e).String())
			}
			rules = append(rules, r)
		}
	}
	if len(rules) > 0 {
		opts = append(opts, WithAddressRewriteRules(rules...))
	}
	if c.cg {
		opts = append(opts, WithContinualGatheringPolicy(GatherContinually))
		if c.mi > 0 {
			opts = append(opts, WithNetworkMonitorInterval(time.Duration(c.mi)*time.Millisecond))
		}
	}
	a, err := newAgentFromConfig(ac, opts...)
	if c.md && len(rules) > 0 && (err == nil || errors.Is(err, ErrIneffectiveNAT1To1IPMappingHost)) {
		// the mode is set after construction (no mDNS server in the bubble): run the constructor's own check of
		// the rewrite rules (the last of its checks) against the mode it would have seen
		probe := &Agent{mDNSMode: MulticastDNSModeQueryAndGather, candidateTypes: ac.CandidateTypes}
		perr := WithAddressRewriteRules(rules...)(probe)
		if perr == nil {
			perr = applyAddressRewriteMapping(probe)
		}
		if perr != nil {
			if a != nil {
				_ = a.Close()
			}
			return nil, perr
		}
	}
	if err != nil {
		return nil, err
	}
	if c.md {
		a.mDNSMode = MulticastDNSModeQueryAndGather
		a.mDNSName = "verif-gather-host.local"
	}
	a.turnClientFactory = w.turnFactory
	return a, nil
}

func (w *gWorld) candString(c Candidate) string {
	t := "?"
	switch c.Type() {
	case CandidateTypeHost:
		t = "h"
	case CandidateTypeServerReflexive:
		t = "s"
	case CandidateTypeRelay:
		t = "r"
	case CandidateTypePeerReflexive:
		t = "p"
	}
	ap := c.addrPort()
	addr := "?noaddr"
	if ap.IsValid() {
		addr = gTok(net.IP(ap.Addr().Unmap().AsSlice()))
	} else if strings.HasSuffix(c.Address(), ".local") {
		addr = "nm.0"
	} else {
		addr = gTokOfString(c.Address())
	}
	name := "i"
	if strings.HasSuffix(c.Address(), ".local") {
		name = "m"
	}
	base, bport := "-", 0
	if ra := c.RelatedAddress(); ra != nil {
		base = gTokOfString(ra.Address)
		bport = ra.Port
	}
	if t == "h" && addr != "nm.0" {
		// the address the candidate's SOCKET is bound to, when it is not the published address (host rewrite);
		// not for a candidate that only has an mDNS name
		if h, ok := c.(*CandidateHost); ok && h.conn != nil {
			var lip net.IP
			switch la := h.conn.LocalAddr().(type) {
			case *net.UDPAddr:
				lip = la.IP
			case *net.TCPAddr:
				lip = la.IP
			}
			if lip != nil {
				if b := gTok(lip); b != addr {
					base = b
				}
			}
		}
	}
	port := c.Port()
	if t == "s" {
		port = bport
	}
	pf := "-"
	if t != "r" {
		pf = w.portFlag(port)
	}
	tag := "none"
	if ext, ok := c.GetExtension("ufrag"); ok {
		w.mu.Lock()
		tag = w.tagOfUfrag(ext.Value)
		w.mu.Unlock()
	}
	rv := "n" // does the candidate know its own transport address?
	if ap.IsValid() {
		rv = "a"
	}
	return strings.Join([]string{t, gNetTok(c.NetworkType()), addr, name, pf, base, tag, rv}, ":")
}

func (w *gWorld) portFlag(port int) string {
	c := w.cfg
	if port == gTmuxPort && c.tm != "" {
		return "M"
	}
	if c.umSet && port == gUmuxPortBase {
		return "M"
	}
	if c.smSet && port == gSmuxPortBase {
		return "M"
	}
	if c.pmin == 0 && c.pmax == 0 {
		return "e"
	}
	lo, hi := c.pmin, c.pmax
	if lo == 0 {
		lo = 1024
	}
	if hi == 0 {
		hi = 0xFFFF
	}
	if port >= lo && port <= hi {
		return "r"
	}
	return "o"
}

func (w *gWorld) onCandidate(c Candidate) {
	var s string
	if c != nil {
		s = w.candString(c)
	}
	w.mu.Lock()
	defer w.mu.Unlock()
	if c == nil {
		w.nilsOp++
		w.nilsGen[w.gen]++
		return
	}
	if w.nilsGen[w.gen] > 0 {
		w.late++
	}
	w.events = append(w.events, s)
}

func (w *gWorld) sortedPending() []*gPending {
	w.mu.Lock()
	defer w.mu.Unlock()
	ps := append([]*gPending{}, w.pending...)
	full := func(p *gPending) string { return fmt.Sprintf("%s%d.%s", p.kind, p.gen, p.key) }
	sort.SliceStable(ps, func(i, j int) bool { return full(ps[i]) < full(ps[j]) })
	return ps
}

func gStateTok(s GatheringState) string {
	switch s {
	case GatheringStateNew:
		return "new"
	case GatheringStateGathering:
		return "gathering"
	case GatheringStateComplete:
		return "complete"
	}
	return "unknown"
}

func (w *gWorld) render(res string) string {
	a := w.a
	st := "closed"
	if s, err := a.GetGatheringState(); err == nil {
		st = gStateTok(s)
	}
	var cs []string
	if cands, err := a.GetLocalCandidates(); err == nil {
		for _, c := range cands {
			cs = append(cs, w.candString(c))
		}
	}
	sort.Strings(cs)
	hid, unres := 0, 0
	var lk []string
	_ = a.loop.Run(a.loop, func(context.Context) {
		for _, set := range a.localCandidates {
			for _, c := range set {
				if c.filterForLocationTracking() {
					hid++
				}
				if !c.addrPort().IsValid() {
					unres++
				}
			}
		}
		for _, ad := range a.lastKnownInterfaces {
			tok := gTok(net.IP(ad.Unmap().AsSlice()))
			if z := ad.Zone(); z != "" {
				tok += "%" + strings.TrimPrefix(z, "if")
			}
			lk = append(lk, tok)
		}
	})
	sort.Strings(lk)
	w.prunePending()
	ps := w.sortedPending()
	w.mu.Lock()
	defer w.mu.Unlock()
	ev := append([]string{}, w.events...)
	sort.Strings(ev)
	w.events = nil
	nilsOp := w.nilsOp
	w.nilsOp = 0
	// ledger
	counts := map[string]map[string]int{}
	for _, r := range w.res {
		if r.open {
			if counts[r.kind] == nil {
				counts[r.kind] = map[string]int{}
			}
			counts[r.kind][r.tag]++
		}
	}
	var led []string
	for _, k := range []string{"sk", "um", "tm", "sm", "tc", "al"} {
		m := counts[k]
		if len(m) == 0 {
			continue
		}
		var tags []string
		for t := range m {
			tags = append(tags, t)
		}
		sort.Strings(tags)
		var items []string
		for _, t := range tags {
			items = append(items, fmt.Sprintf("%s=%d", t, m[t]))
		}
		led = append(led, k+":"+strings.Join(items, ";"))
	}
	var mg []string
	for k, v := range w.muxGets {
		mg = append(mg, fmt.Sprintf("%s=%d", k, v))
	}
	sort.Strings(mg)
	var pend []string
	for _, p := range ps {
		pend = append(pend, fmt.Sprintf("%s%d.%s", p.kind, p.gen, p.key))
	}
	j := func(l []string) string {
		if len(l) == 0 {
			return "-"
		}
		return strings.Join(l, ",")
	}
	line := fmt.Sprintf("r=%s st=%s g=%d fl=%d t=%d c=%s ev=%s nil=%d nils=%d late=%d led=%s tot=%d/%d mg=%s held=%d hid=%d nr=%d pend=%s",
		res, st, w.gen, w.failed, time.Since(w.epoch).Milliseconds(), j(cs), j(ev), nilsOp, w.nilsGen[w.gen], w.late, j(led), w.opens, w.closes, j(mg), w.held, hid, unres, j(pend))
	if w.cfg.cg {
		line += " lk=" + strings.Join(lk, "+")
		if len(lk) == 0 {
			line += "-"
		}
	}
	return line
}

func gErrTok(err error) string {
	switch {
	case err == nil:
		return "ok"
	case errors.Is(err, ErrMultipleGatherAttempted):
		return "err:multiple"
	case errors.Is(err, ErrNoOnCandidateHandler):
		return "err:nohandler"
	case errors.Is(err, ErrPort):
		return "err:port"
	case errors.Is(err, ErrUselessUrlsProvided):
		return "err:uselessurls"
	case errors.Is(err, ErrIneffectiveNAT1To1IPMappingHost):
		return "err:ineffective"
	case errors.Is(err, ErrMulticastDNSWithNAT1To1IPMapping):
		return "err:mdnsrewrite"
	case strings.Contains(err.Error(), "closed"):
		return "err:closed"
	}
	return "err:" + strings.NewReplacer(" ", "_", "\t", "_").Replace(err.Error())
}

func (w *gWorld) exec(t []string) string {
	a := w.a
	switch t[0] {
	case "gather":
		err := a.GatherCandidates()
		synctest.Wait()
		return w.render(gErrTok(err))
	case "gather2", "grg":
		// Hold the task loop with a blocking task, queue the calls behind it one by one (a channel's send
		// queue is FIFO, and each caller is parked in loop.Run before the next one starts), release the
		// loop, quiesce. The queued tasks then run back to back, BEFORE the goroutine of the first cycle
		// gets its setGatheringState(Gathering) task through: both GatherCandidates calls see state New.
		release := make(chan struct{})
		go func() { _ = a.loop.Run(a.loop, func(context.Context) { <-release }) }()
		synctest.Wait()
		var res []chan error
		call := func(f func() error) {
			ch := make(chan error, 1)
			res = append(res, ch)
			go func() { ch <- f() }()
			synctest.Wait()
		}
		call(a.GatherCandidates)
		next := -1
		if t[0] == "grg" {
			w.mu.Lock()
			next = w.gen + 1
			w.ufrags[gUfragOf(next)] = next
			w.mu.Unlock()
			call(func() error { return a.Restart(gUfragOf(next), gPwdOf(next)) })
		}
		call(a.GatherCandidates)
		if next >= 0 && !w.closed {
			// nothing has been opened while the loop was held; everything that follows the Restart task
			// belongs to the next generation
			w.mu.Lock()
			w.gen = next
			w.mu.Unlock()
		}
		close(release)
		synctest.Wait()
		var toks []string
		for _, ch := range res {
			toks = append(toks, gErrTok(<-ch))
		}
		if next >= 0 {
			w.settleChecks()
		}
		return w.render(strings.Join(toks, "+"))
	case "restart":
		w.mu.Lock()
		next := w.gen + 1
		w.ufrags[gUfragOf(next)] = next
		w.mu.Unlock()
		// the generation counter of the fake world advances inside the agent's own task sequence:
		// Restart's task runs atomically w.r.t. every other task, sockets opened later belong to `next`.
		err := a.Restart(gUfragOf(next), gPwdOf(next))
		if err == nil {
			w.mu.Lock()
			w.gen = next
			w.mu.Unlock()
		}
		synctest.Wait()
		w.settleChecks()
		return w.render(gErrTok(err))
	case "close":
		return w.render(w.doClose())
	case "fail":
		if w.closed {
			return w.render("skip")
		}
		err := a.startConnectivityChecks(true, "remoteufragXXXX", "remotepasswordXXXXXXXXXXXXXXXXXXX")
		if err != nil && !errors.Is(err, ErrMultipleStart) {
			return w.render(gErrTok(err))
		}
		w.started = true
		before := w.failedCount()
		for i := 0; i < 60 && w.failedCount() == before; i++ {
			time.Sleep(100 * time.Millisecond)
			synctest.Wait()
		}
		w.settleChecks()
		return w.render("ok")
	case "release":
		w.releaseHold()
		synctest.Wait()
		return w.render("ok")
	case "hold":
		w.mu.Lock()
		if w.holdCh == nil && w.cfg.umSet {
			w.holdCh = make(chan struct{})
		}
		w.mu.Unlock()
		return w.render("ok")
	case "ifaces":
		if len(t) < 2 {
			return "bad-op"
		}
		tbl := gParseIfaces(t[1])
		w.mu.Lock()
		w.ifaces = tbl
		w.mu.Unlock()
		synctest.Wait()
		return w.render("ok")
	case "adv":
		ms, _ := strconv.Atoi(t[1])
		time.Sleep(time.Duration(ms) * time.Millisecond)
		synctest.Wait()
		w.settleChecks()
		return w.render("ok")
	case "stunreply":
		k, _ := strconv.Atoi(t[1])
		mi, _ := strconv.Atoi(t[2])
		var sp []*gPending
		for _, p := range w.sortedPending() {
			if p.kind == "S" {
				sp = append(sp, p)
			}
		}
		if k >= len(sp) {
			return w.render("skip")
		}
		p := sp[k]
		if p.sock != nil {
			tok := fmt.Sprintf("x4.%d", mi)
			if gIs6Tok(p.sock.res.ipTok) {
				tok = fmt.Sprintf("x6.%d", mi)
			}
			w.dropPending(p)
			select {
			case p.sock.in <- gDgram{from: p.from, data: gStunReply(p.tid, gIP(tok), 6000+mi)}:
			default:
			}
		} else {
			p.reply <- fmt.Sprintf("ok:%d", mi)
		}
		synctest.Wait()
		return w.render("ok")
	case "turnreply":
		k, _ := strconv.Atoi(t[1])
		var tp []*gPending
		for _, p := range w.sortedPending() {
			if p.kind == "T" {
				tp = append(tp, p)
			}
		}
		if k >= len(tp) {
			return w.render("skip")
		}
		if t[2] == "fail" {
			tp[k].reply <- "fail"
		} else {
			mi, _ := strconv.Atoi(strings.TrimPrefix(t[2], "ok"))
			tp[k].reply <- fmt.Sprintf("ok:%d", mi)
		}
		synctest.Wait()
		return w.render("ok")
	}
	return "bad-op"
}

// doClose: open the gate, let the released gatherers finish, then GracefulClose; the virtual clock is
// advanced in 500 ms steps while Close is waiting for gatherers that run into their timeouts.
func (w *gWorld) doClose() string {
	w.releaseHold()
	synctest.Wait()
	done := make(chan error, 1)
	go func() { done <- w.a.GracefulClose() }()
	var err error
	ret := false
	for i := 0; i < 40 && !ret; i++ {
		synctest.Wait()
		select {
		case err = <-done:
			ret = true
		default:
			time.Sleep(500 * time.Millisecond)
		}
	}
	synctest.Wait()
	w.closed = true
	if !ret {
		return "blocked"
	}
	return gErrTok(err)
}

// settleChecks: once connectivity checks run (after `fail`), a candidate added by a later zero-time
// operation forces a check (`requestConnectivityCheck`), and if the checking deadline has just passed
// that check enters Failed in the MIDDLE of the operation, concurrently with the other gatherers - a
// scheduler-dependent interleaving. Forcing the check at the end of every operation that advances the
// clock (and after Restart, which re-enters Checking) makes Failed land at operation boundaries.
func (w *gWorld) settleChecks() {
	if w.started && !w.closed {
		w.a.requestConnectivityCheck()
		synctest.Wait()
	}
}

func (w *gWorld) failedCount() int {
	w.mu.Lock()
	defer w.mu.Unlock()
	return w.failed
}

func (w *gWorld) releaseHold() {
	w.mu.Lock()
	ch := w.holdCh
	w.holdCh = nil
	w.held = 0
	w.mu.Unlock()
	if ch != nil {
		close(ch)
	}
}

// STUN requests time out on their own (the read deadline of the socket); the world only has to forget
// the parked request once its socket is closed.
func (w *gWorld) prunePending() {
	w.mu.Lock()
	defer w.mu.Unlock()
	out := w.pending[:0]
	for _, p := range w.pending {
		if p.sock != nil {
			select {
			case <-p.sock.closed:
				continue
			default:
			}
		}
		out = append(out, p)
	}
	w.pending = out
}

// ---------------------------------------------------------------------------------------------
// session plumbing (same pattern as the "agent" component)
// ---------------------------------------------------------------------------------------------

var (
	gSessIn   chan vReq
	gSessDone chan string
)

func gRunSession(t *testing.T, cfg, ifaces string, first chan string) {
	synctest.Test(t, func(t *testing.T) {
		w := &gWorld{cfg: gParseCfg(cfg), ifaces: gParseIfaces(ifaces), ufrags: map[string]int{gUfragOf(0): 0},
			bound: map[string]*gSock{}, muxGets: map[string]int{}, nilsGen: map[int]int{}, epoch: time.Now()}
		if w.cfg.hold {
			w.holdCh = make(chan struct{})
		}
		a, err := w.newAgent()
		if err != nil {
			first <- "r=" + gErrTok(err)
			return
		}
		w.a = a
		if err := a.OnCandidate(w.onCandidate); err != nil {
			first <- "r=" + gErrTok(err)
			_ = a.Close()
			return
		}
		_ = a.OnConnectionStateChange(func(s ConnectionState) {
			if s == ConnectionStateFailed {
				w.mu.Lock()
				w.failed++
				w.mu.Unlock()
			}
		})
		synctest.Wait()
		first <- w.render("ok")
		for req := range gSessIn {
			if req.toks[0] == "end" {
				if !w.closed {
					_ = w.doClose()
				}
				// let superseded cycles wind down (STUN / TURN timeouts) so that the bubble can end
				time.Sleep(gTurnTimeout + gStunTimeout)
				synctest.Wait()
				w.prunePending()
				req.resp <- w.render("ended")
				return
			}
			res := func() (res string) {
				defer func() {
					if p := recover(); p != nil {
						res = "PANIC " + strings.NewReplacer("\t", " ", "\n", " ").Replace(fmt.Sprint(p))
					}
				}()
				r := w.exec(req.toks)
				return r
			}()
			req.resp <- res
		}
	})
}

func gExec(o *vOut, t []string) string {
	if len(t) < 2 {
		return "bad-op"
	}
	if t[1] == "stress" && len(t) == 3 {
		if gSessIn != nil {
			gEndSession()
		}
		ms, _ := strconv.Atoi(t[2])
		stale, trials := gStressS5(time.Duration(ms) * time.Millisecond)
		o.statN("stress.trials", trials)
		o.statN("stress.stale", stale)
		if stale > 0 {
			return "r=ok stale=1"
		}
		return "r=ok stale=0"
	}
	if t[1] == "new" {
		if gSessIn != nil {
			gEndSession()
		}
		if len(t) < 4 {
			return "bad-op"
		}
		gDetectQuirks(o)
		gSessIn = make(chan vReq)
		gSessDone = make(chan string, 1)
		first := make(chan string, 1)
		done := gSessDone
		cfg, ifaces := t[2], t[3]
		go func() {
			ok := vT.Run("gsession", func(t *testing.T) { gRunSession(t, cfg, ifaces, first) })
			if !ok {
				select {
				case first <- "r=err:session-failed":
				default:
				}
				done <- "LEAK-OR-DEADLOCK"
			} else {
				done <- "ok"
			}
		}()
		o.stat("sessions")
		r := <-first
		if strings.HasPrefix(r, "r=ok ") && !gDetecting {
			r = "r=ok q=" + gQuirks + " " + strings.TrimPrefix(r, "r=ok ")
		}
		if !strings.HasPrefix(r, "r=ok") {
			// constructor refused the configuration: no session
			<-done
			gSessIn = nil
			o.stat("new.refused")
		}
		return r
	}
	if gSessIn == nil {
		return "bad-op no session"
	}
	if t[1] == "end" {
		return gEndSession()
	}
	o.stat("op." + t[1])
	resp := make(chan string, 1)
	select {
	case gSessIn <- vReq{t[1:], resp}:
		select {
		case r := <-resp:
			return r
		case r := <-gSessDone:
			gSessIn = nil
			return "SESSION-DIED " + r
		}
	case r := <-gSessDone:
		gSessIn = nil
		return "SESSION-DIED " + r
	}
}

func gEndSession() string {
	resp := make(chan string, 1)
	out := "ended"
	select {
	case gSessIn <- vReq{[]string{"end"}, resp}:
		out = <-resp
	case <-time.After(10 * time.Second):
	}
	close(gSessIn)
	gSessIn = nil
	select {
	case r := <-gSessDone:
		if r != "ok" {
			return out + " " + r
		}
		return out
	case <-time.After(20 * time.Second):
		return out + " TIMEOUT"
	}
}

// ---------------------------------------------------------------------------------------------
// canary sessions: which of the findings C18-G1..G5, G8, G9, G10, C09-G11 (numbers 1..5, 8..11) does the code under test still have?  The answer is
// printed in the `new` line (q=1+2, "-" = none) and selects the variant of the MODEL that is compared;
// the spec monitors do not depend on it.
// ---------------------------------------------------------------------------------------------

var (
	gQuirks     = "-"
	gQuirksDone bool
	gDetecting  bool
)

func gDetectQuirks(o *vOut) {
	if gQuirksDone {
		return
	}
	gQuirksDone = true
	gDetecting = true
	defer func() { gDetecting = false }()
	run := func(cfg, ifaces string, ops ...string) string {
		out := gExec(o, []string{"gather", "new", cfg, ifaces})
		if !strings.HasPrefix(out, "r=ok") {
			return out
		}
		for _, op := range ops {
			out = gExec(o, append([]string{"gather"}, strings.Split(op, " ")...))
		}
		gExec(o, []string{"gather", "end"})
		return out
	}
	base := "pmin=0,pmax=0,rif=-,rip=-,lo=0,md=0,tm=-,sm=-,tf=0,rr=-,busy=-,hold=0"
	var q []string
	if strings.Contains(gField(run("ct=h,nt=u4+t6,um=-,su=0,tu=0,sr=-,"+base, "0:u:g4.1+g6.1", "gather"), "c"), "h:u6:") {
		q = append(q, "1")
	}
	if strings.Contains(gField(run("ct=h,nt=u4,um=g6.1,su=0,tu=0,sr=-,"+base, "0:u:g4.1", "gather"), "c"), "h:u6:") {
		q = append(q, "2")
	}
	if strings.Contains(gField(run("ct=r,nt=u6,um=-,su=0,tu=1,sr=-,"+base, "0:u:g4.1", "gather", "turnreply 0 ok1"), "c"), "r:u4:") {
		q = append(q, "3")
	}
	if strings.Contains(gField(run("ct=s,nt=u4,um=-,su=0,tu=0,sr=rep,"+strings.Replace(base, "rif=-", "rif=n", 1), "0:u:g4.1", "gather"), "c"), ":u4.0:") {
		q = append(q, "4")
	}
	if strings.Contains(gField(run("ct=h,nt=u6,um=s6.1,su=0,tu=0,sr=-,"+base, "0:u:g4.1", "gather"), "c"), "s6.1") {
		q = append(q, "5")
	}
	if strings.Contains(gField(run("ct=h,nt=u6,um=-,su=0,tu=0,sr=-,hr=rep:-:-:s6.71,"+base, "0:u:g6.1", "gather"), "c"), "s6.71") {
		q = append(q, "8")
	}
	if !strings.Contains(gField(run("ct=h,nt=u4,um=g4.1,su=0,tu=0,sr=-,hr=rep:-:-:k4.70,"+base, "0:u:g4.1", "gather"), "c"), "k4.70") {
		q = append(q, "9")
	}
	// C18-G10: lastKnownInterfaces is recorded after the first pass and merged into what earlier cycles left
	if strings.Contains(gField(run("ct=h,nt=u4,um=-,su=0,tu=0,sr=-,cg=1,mi=733,"+base, "0:u:g4.1+g4.2", "gather", "ifaces 0:u:g4.1", "restart", "gather"), "lk"), "g4.2") {
		q = append(q, "10")
	}
	// C09-G11: Close returns while a re-gather pass of the monitor still waits for its TURN allocation
	if p := gField(run("ct=r,nt=u4,um=-,su=0,tu=1,sr=-,cg=1,mi=733,"+base, "0:u:g4.1", "gather", "turnreply 0 ok1", "ifaces 0:u:g4.1+g4.2", "adv 733", "close"), "pend"); p != "-" && p != "" {
		q = append(q, "11")
	}
	// C09-G12: Close returns while the gatherer of a cycle that Restart superseded still waits for its TURN allocation
	if p := gField(run("ct=r,nt=u4,um=-,su=0,tu=1,sr=-,"+base, "0:u:g4.1", "gather", "restart", "gather", "turnreply 1 ok1", "close"), "pend"); p != "-" && p != "" {
		q = append(q, "12")
	}
	if len(q) > 0 {
		gQuirks = strings.Join(q, "+")
	}
	o.stat("quirks." + gQuirks)
}

// gStressS5 (suspicion S5, outside synctest, real scheduler): GatherCandidates over 12 host addresses with
// a concurrent Restart, on every CPU, for the given wall time.  After Restart has returned the agent is in
// state New with no candidates; a local candidate that shows up afterwards was started by the CANCELLED
// cycle: addCandidate passed its context check before the Restart and handed its task over after it.
func gStressS5(d time.Duration) (stale, trials int) {
	var nStale, nTrials int64
	deadline := time.Now().Add(d)
	var wg sync.WaitGroup
	for g := 0; g < runtime.NumCPU(); g++ {
		wg.Add(1)
		go func(g int) {
			defer wg.Done()
			r := &vRand{s: uint64(g)*977 + 1}
			for time.Now().Before(deadline) {
				w := &gWorld{cfg: gParseCfg("ct=h,nt=u4,pmin=0,pmax=0"),
					ifaces: gParseIfaces("0:u:g4.1+g4.2+g4.3+g4.4+g4.5+g4.6+g4.7+g4.8+g4.9+g4.10+g4.11+g4.12"),
					ufrags: map[string]int{gUfragOf(0): 0}, bound: map[string]*gSock{}, muxGets: map[string]int{},
					nilsGen: map[int]int{}, epoch: time.Now()}
				a, err := w.newAgent()
				if err != nil {
					return
				}
				w.a = a
				_ = a.OnCandidate(func(Candidate) {})
				_ = a.GatherCandidates()
				for i, n := 0, r.intn(400); i < n; i++ {
					runtime.Gosched()
				}
				_ = a.Restart(gUfragOf(1), gPwdOf(1))
				time.Sleep(200 * time.Microsecond)
				st, _ := a.GetGatheringState()
				cands, _ := a.GetLocalCandidates()
				atomic.AddInt64(&nTrials, 1)
				if st == GatheringStateNew && len(cands) > 0 {
					atomic.AddInt64(&nStale, 1)
				}
				_ = a.Close()
			}
		}(g)
	}
	wg.Wait()
	return int(nStale), int(nTrials)
}

// generator: see zz_verif_gathergen_test.go
