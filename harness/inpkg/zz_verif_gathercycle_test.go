//go:build verif

// Tie A of property C11, gathering clause: histories of ONE real Agent (gather-once, host-only gathering
// over a fake transport.Net with 0–3 interfaces whose calls take random VIRTUAL time) inside a
// testing/synctest bubble, one protocol line per history:
//
//	gathercycle hist <ifaces> <scenario> <tok> …        → implementation output "recorded"
//
// API calls are made by one goroutine and stamped at the call: G<r> GatherCandidates (0 nil,
// 1 ErrMultipleGatherAttempted, 2 other error), R<u> Restart to ufrag number u, S<g> GetGatheringState
// (0 new, 1 gathering, 2 complete) taken after synctest.Wait() (every goroutine blocked), P<g> the same
// immediately followed by Restart (no virtual time passes, nothing else runs in between), X GracefulClose /
// Close, W the recorder slept an hour of virtual time and waited until everything was blocked.
// Callbacks (OnCandidate): c<t> candidate whose "ufrag" extension is ufrag number t, n the nil candidate.
package ice

import (
	"errors"
	"fmt"
	"net"
	"os"
	"sort"
	"strconv"
	"strings"
	"sync"
	"sync/atomic"
	"testing"
	"testing/synctest"
	"time"

	"github.com/pion/transport/v4"
)

// vgcNet: Interfaces and ListenUDP only; both take a scripted amount of virtual time.
type vgcNet struct {
	transport.Net
	ifaces []*transport.Interface
	mu     sync.Mutex
	delays []time.Duration
	next   int
	port   int
}

func (n *vgcNet) delay() {
	n.mu.Lock()
	d := n.delays[n.next%len(n.delays)]
	n.next++
	n.mu.Unlock()
	if vgcDebug {
		fmt.Printf("DBG net delay %v at vt=%s\n", d, time.Now().Format("15:04:05.000000000"))
	}
	if d > 0 {
		time.Sleep(d)
	}
}

func (n *vgcNet) Interfaces() ([]*transport.Interface, error) {
	n.delay()
	return n.ifaces, nil
}

func (n *vgcNet) ListenUDP(_ string, laddr *net.UDPAddr) (transport.UDPConn, error) {
	n.delay()
	n.mu.Lock()
	n.port++
	p := 20000 + n.port
	n.mu.Unlock()
	return &vgcConn{addr: &net.UDPAddr{IP: laddr.IP, Port: p}, closed: make(chan struct{})}, nil
}

type vgcConn struct {
	transport.UDPConn
	addr   *net.UDPAddr
	closed chan struct{}
	once   sync.Once
}

func (c *vgcConn) ReadFrom([]byte) (int, net.Addr, error) {
	<-c.closed
	return 0, nil, net.ErrClosed
}
func (c *vgcConn) WriteTo(b []byte, _ net.Addr) (int, error) { return len(b), nil }
func (c *vgcConn) Close() error                              { c.once.Do(func() { close(c.closed) }); return nil }
func (c *vgcConn) LocalAddr() net.Addr                       { return c.addr }
func (c *vgcConn) SetDeadline(time.Time) error               { return nil }
func (c *vgcConn) SetReadDeadline(time.Time) error           { return nil }
func (c *vgcConn) SetWriteDeadline(time.Time) error          { return nil }

func vgcUfrag(k int) string { return fmt.Sprintf("vufrag%04d", k) }

const vgcPwd = "verifverifverifverifverif0123"

func vgcTag(c Candidate) int {
	for _, e := range c.Extensions() {
		if e.Key == "ufrag" {
			if strings.HasPrefix(e.Value, "vufrag") {
				if k, err := strconv.Atoi(e.Value[6:]); err == nil {
					return k
				}
			}
			return 9998
		}
	}
	return 9999
}

type vgcRec struct {
	ctr atomic.Uint64
	mu  sync.Mutex
	evs []vnEv
}

var vgcDebug = false

func (r *vgcRec) at(st uint64, tok string) {
	if vgcDebug {
		fmt.Printf("DBG stamp=%d tok=%s vt=%s\n", st, tok, time.Now().Format("15:04:05.000000000"))
	}
	r.mu.Lock()
	r.evs = append(r.evs, vnEv{st, tok})
	r.mu.Unlock()
}
func (r *vgcRec) now(tok string) { r.at(r.ctr.Add(1), tok) }
func (r *vgcRec) line() string {
	r.mu.Lock()
	defer r.mu.Unlock()
	sort.Slice(r.evs, func(i, j int) bool { return r.evs[i].stamp < r.evs[j].stamp })
	toks := make([]string, len(r.evs))
	for i, e := range r.evs {
		toks[i] = e.tok
	}
	return strings.Join(toks, " ")
}

func vgcDelay(r *vRand) time.Duration {
	switch r.intn(5) {
	case 0:
		return 0
	case 1:
		return time.Duration(1 + r.intn(3))
	case 2:
		return time.Duration(1+r.intn(100)) * time.Microsecond
	default:
		return time.Duration(1+r.intn(30)) * time.Millisecond
	}
}

func vgcRun(t *testing.T, r *vRand, stats func(string)) (int, string) {
	rec := &vgcRec{}
	nIf := r.intn(4) // 0..3 interfaces
	if r.chance(1, 2) {
		nIf = 1 + r.intn(3)
	}
	fnet := &vgcNet{}
	for i := 0; i < nIf; i++ {
		ifc := transport.NewInterface(net.Interface{Index: i + 1, MTU: 1500, Name: fmt.Sprintf("eth%d", i), Flags: net.FlagUp})
		ifc.AddAddress(&net.IPNet{IP: net.IPv4(10, 0, byte(i), 1), Mask: net.CIDRMask(24, 32)})
		fnet.ifaces = append(fnet.ifaces, ifc)
	}
	for i := 0; i < 16; i++ {
		fnet.delays = append(fnet.delays, vgcDelay(r))
	}
	a, err := NewAgent(&AgentConfig{
		NetworkTypes:     []NetworkType{NetworkTypeUDP4},
		CandidateTypes:   []CandidateType{CandidateTypeHost},
		MulticastDNSMode: MulticastDNSModeDisabled,
		Net:              fnet,
		LocalUfrag:       vgcUfrag(0),
		LocalPwd:         vgcPwd,
	})
	if err != nil {
		t.Fatal(err)
	}
	hd := make([]time.Duration, 8)
	for i := range hd {
		if r.chance(1, 3) {
			hd[i] = vgcDelay(r)
		}
	}
	var hn atomic.Int64
	_ = a.OnCandidate(func(c Candidate) {
		if vgcDebug {
			fmt.Printf("DBG callback %v vt=%s\n", c, time.Now().Format("15:04:05.000000000"))
		}
		if c == nil {
			rec.now("n")
		} else {
			rec.now(fmt.Sprintf("c%d", vgcTag(c)))
		}
		if d := hd[int(hn.Add(1))%len(hd)]; d > 0 {
			time.Sleep(d) // slow handler
		}
	})
	epoch := 0
	gather := func() {
		st := rec.ctr.Add(1)
		err := a.GatherCandidates()
		code := 0
		switch {
		case err == nil:
		case errors.Is(err, ErrMultipleGatherAttempted):
			code = 1
		default:
			code = 2
		}
		rec.at(st, fmt.Sprintf("G%d", code))
		stats(fmt.Sprintf("gathercycle.gather.res%d", code))
	}
	restart := func() {
		st := rec.ctr.Add(1)
		if vgcDebug {
			fmt.Printf("DBG restart call vt=%s\n", time.Now().Format("15:04:05.000000000"))
		}
		if err := a.Restart(vgcUfrag(epoch+1), vgcPwd); err != nil {
			return // closed: nothing happened
		}
		epoch++
		rec.at(st, fmt.Sprintf("R%d", epoch))
	}
	poll := func(tok string) int {
		synctest.Wait()
		st := rec.ctr.Add(1)
		g, err := a.GetGatheringState()
		if err != nil {
			return -1
		}
		code := map[GatheringState]int{GatheringStateNew: 0, GatheringStateGathering: 1, GatheringStateComplete: 2}[g]
		rec.at(st, fmt.Sprintf("%s%d", tok, code))
		return code
	}
	settle := func() {
		time.Sleep(time.Hour)
		synctest.Wait()
		rec.now("W")
	}
	nOps := 2 + r.intn(8)
	gather()
	for i := 0; i < nOps; i++ {
		switch r.intn(7) {
		case 0, 1:
			time.Sleep(vgcDelay(r))
			gather()
		case 2:
			time.Sleep(vgcDelay(r))
			restart()
		case 3: // poll then IMMEDIATELY restart: the polled cycle is cancelled in the state seen
			time.Sleep(vgcDelay(r))
			g := poll("P")
			restart()
			stats(fmt.Sprintf("gathercycle.restart-after-poll%d", g))
		case 4:
			time.Sleep(vgcDelay(r))
			poll("S")
		case 5: // restart and gather again back to back
			time.Sleep(vgcDelay(r))
			restart()
			gather()
		default:
			settle()
			poll("S")
		}
	}
	if r.chance(2, 3) {
		settle()
		poll("S")
	} else {
		time.Sleep(vgcDelay(r))
		stats("gathercycle.close-mid-cycle")
	}
	st := rec.ctr.Add(1)
	if r.chance(1, 2) {
		_ = a.GracefulClose()
	} else {
		_ = a.Close()
	}
	rec.at(st, "X")
	settle()
	return nIf, rec.line()
}

func init() {
	vComponents["gathercycle"] = &vComp{
		gen: func(o *vOut, r *vRand, thorough bool, args []string, emit func(op string)) {
			n := 6000
			if thorough {
				n = 250000
			}
			stats := func(k string) { o.stat(k) }
			var lines []string
			ok := vnWithT(func(t *testing.T) {
				for i := 0; i < n; i++ {
					rr := r.fork()
					var nIf int
					var l string
					vgcDebug = os.Getenv("VERIF_GC_DEBUG") == fmt.Sprint(i)
					synctest.Test(t, func(t *testing.T) { nIf, l = vgcRun(t, rr, stats) })
					lines = append(lines, fmt.Sprintf("gathercycle hist %d g%d %s", nIf, i, l))
					o.stat(fmt.Sprintf("gathercycle.ifaces%d", nIf))
					if len(lines) >= 50 {
						for _, x := range lines {
							emit(x)
						}
						lines = lines[:0]
						_ = o.w.Flush()
					}
				}
			})
			for _, x := range lines {
				emit(x)
			}
			if !ok {
				panic("gathercycle: synctest scenarios failed")
			}
		},
		exec: func(o *vOut, toks []string) string {
			if len(toks) >= 4 && toks[1] == "hist" {
				return "recorded"
			}
			return "bad-op"
		},
	}
}
