//go:build verif

package ice

// Correspondence harness for C19 (address rewrite rules). Line protocol: see lean/Driver/Rewrite.lean.
//
// Addresses travel as abstract tokens (4:<n>, 6:<n>); this file renders them as real IP literals
// for the code under test and parses the code's net.IP results back. Unparsable strings are
// tokens bad<k> (table vRwBad) and ws (whitespace only).

import (
	"fmt"
	"math/big"
	"net"
	"net/netip"
	"strconv"
	"strings"

	"github.com/pion/logging"
)

func init() { vComponents["rewrite"] = &vComp{gen: vRwGen, exec: vRwExec} }

var vRwBad = []string{"not-an-ip", "300.1.1.1", "10.0.0.1/24", "1.2.3", "fe80::1%eth0", "203.0.113.1/10.0.0.1"}

var vRwMapper *addressRewriteMapper

var vRwLog = logging.NewDefaultLoggerFactory().NewLogger("verif")

// vRwStr renders a token as the string handed to the code under test.
func vRwStr(tok string) string {
	switch {
	case tok == "ws":
		return "  "
	case tok == "e" || tok == "-":
		return ""
	case strings.HasPrefix(tok, "bad"):
		k, _ := strconv.Atoi(tok[3:])
		return vRwBad[k%len(vRwBad)]
	case strings.HasPrefix(tok, "4:"):
		n, _ := strconv.ParseUint(tok[2:], 10, 32)
		return net.IPv4(byte(n>>24), byte(n>>16), byte(n>>8), byte(n)).String()
	case strings.HasPrefix(tok, "6:"):
		n, ok := new(big.Int).SetString(tok[2:], 10)
		if !ok {
			panic("verif harness: bad token " + tok)
		}
		var b [16]byte
		n.FillBytes(b[:])
		return netip.AddrFrom16(b).String() // keeps ::ffff:a.b.c.d literal for IPv4-mapped values
	}
	panic("verif harness: bad token " + tok)
}

func vRwCIDRStr(tok string) string {
	if i := strings.IndexByte(tok, '/'); i >= 0 && (strings.HasPrefix(tok, "4:") || strings.HasPrefix(tok, "6:")) {
		return vRwStr(tok[:i]) + tok[i:]
	}
	return vRwStr(tok)
}

// vRwTok is the inverse: a net.IP produced by the code under test as a token.
func vRwTok(ip net.IP) string {
	if v4 := ip.To4(); v4 != nil {
		return fmt.Sprintf("4:%d", uint32(v4[0])<<24|uint32(v4[1])<<16|uint32(v4[2])<<8|uint32(v4[3]))
	}
	if len(ip) != net.IPv6len {
		return "bad-ip-result"
	}
	return "6:" + new(big.Int).SetBytes(ip).String()
}

func vRwToks(ips []net.IP) string {
	if len(ips) == 0 {
		return "-"
	}
	out := make([]string, len(ips))
	for i, ip := range ips {
		out[i] = vRwTok(ip)
	}
	return strings.Join(out, ",")
}

func vRwList(s, sep string) []string {
	if s == "-" {
		return nil
	}
	return strings.Split(s, sep)
}

func vRwRule(enc string) AddressRewriteRule {
	f := strings.Split(enc, "|")
	if len(f) != 7 {
		panic("verif harness: bad rule " + enc)
	}
	ty, _ := strconv.Atoi(f[0])
	mo, _ := strconv.Atoi(f[1])
	r := AddressRewriteRule{AsCandidateType: CandidateType(ty), Mode: AddressRewriteMode(mo)}
	if f[2] != "-" {
		r.Iface = f[2]
	}
	if f[3] != "-" {
		r.CIDR = vRwCIDRStr(f[3])
	}
	if f[4] != "-" {
		r.Local = vRwStr(f[4])
	}
	for _, n := range vRwList(f[5], ",") {
		v, _ := strconv.Atoi(n)
		r.Networks = append(r.Networks, NetworkType(v))
	}
	for _, e := range vRwList(f[6], ",") {
		r.External = append(r.External, vRwStr(e))
	}
	return r
}

func vRwErr(err error) string {
	switch {
	case err == nil:
		return ""
	case strings.Contains(err.Error(), ErrUnsupportedNAT1To1IPCandidateType.Error()):
		return "err:unsupported"
	case strings.Contains(err.Error(), ErrInvalidNAT1To1IPMapping.Error()):
		return "err:invalid"
	}
	return "err:other:" + strings.ReplaceAll(err.Error(), " ", "_")
}

func vRwShowNew(m *addressRewriteMapper, err error) string {
	if err != nil {
		return vRwErr(err)
	}
	if m == nil {
		return "nil"
	}
	b := func(v bool) string {
		if v {
			return "1"
		}
		return "0"
	}
	n := func(ct CandidateType) int { return len(m.rulesByCandidateType[ct]) }
	return fmt.Sprintf("ok %d,%d,%d %s%s%s", n(CandidateTypeHost), n(CandidateTypeServerReflexive), n(CandidateTypeRelay),
		b(m.shouldReplace(CandidateTypeHost)), b(m.shouldReplace(CandidateTypeServerReflexive)), b(m.shouldReplace(CandidateTypeRelay)))
}

func vRwExec(o *vOut, t []string) string {
	if len(t) < 2 {
		return "bad-op"
	}
	iface := func(s string) string {
		if s == "-" {
			return ""
		}
		return s
	}
	switch {
	case t[1] == "new" && len(t) == 4 && (t[2] == "rules" || t[2] == "opt"):
		vRwMapper = nil
		var rules []AddressRewriteRule
		for _, enc := range vRwList(t[3], ";") {
			rules = append(rules, vRwRule(enc))
		}
		if t[2] == "opt" {
			// the public path: WithAddressRewriteRules(rules...) on a fresh agent, then what NewAgent does with it
			ag := &Agent{}
			if err := WithAddressRewriteRules(rules...)(ag); err != nil {
				o.stat("new.opt." + vRwErr(err))
				return vRwErr(err)
			}
			rules = ag.addressRewriteRules
		}
		m, err := newAddressRewriteMapper(rules)
		if err == nil {
			vRwMapper = m
		}
		out := vRwShowNew(m, err)
		o.stat("new." + t[2] + "." + strings.SplitN(out, " ", 2)[0])
		o.stat(fmt.Sprintf("new.len=%d", len(rules)))
		return out
	case t[1] == "new" && len(t) == 5 && t[2] == "legacy":
		vRwMapper = nil
		ty, _ := strconv.Atoi(t[3])
		ips := []string{}
		for _, e := range vRwList(t[4], ",") {
			parts := strings.Split(e, "/")
			for i := range parts {
				parts[i] = vRwStr(parts[i])
			}
			ips = append(ips, strings.Join(parts, "/"))
		}
		// NewAgent (agent.go): validateLegacyNAT1To1IPs, legacyNAT1To1Rules, then applyAddressRewriteMapping
		if err := validateLegacyNAT1To1IPs(ips); err != nil {
			o.stat("new.legacy." + vRwErr(err))
			return vRwErr(err)
		}
		typ := CandidateTypeHost
		if CandidateType(ty) != CandidateTypeUnspecified {
			typ = CandidateType(ty)
		}
		rules, err := legacyNAT1To1Rules(ips, typ)
		if err != nil {
			o.stat("new.legacy." + vRwErr(err))
			return vRwErr(err)
		}
		m, err := newAddressRewriteMapper(rules)
		if err == nil {
			vRwMapper = m
		}
		out := vRwShowNew(m, err)
		o.stat("new.legacy." + strings.SplitN(out, " ", 2)[0])
		return out
	case t[1] == "lookup" && len(t) == 5:
		if vRwMapper == nil {
			return "nomapper"
		}
		ct, _ := strconv.Atoi(t[2])
		ips, matched, mode, err := vRwMapper.findExternalIPs(CandidateType(ct), vRwStr(t[3]), iface(t[4]))
		if err != nil {
			o.stat("lookup." + vRwErr(err))
			return vRwErr(err)
		}
		o.stat(fmt.Sprintf("lookup.matched=%t.mode=%d.n=%d", matched, mode, len(ips)))
		return fmt.Sprintf("%d %t %s", mode, matched, vRwToks(ips))
	case t[1] == "apply" && len(t) == 6:
		ag := &Agent{addressRewriteMapper: vRwMapper, log: vRwLog}
		bad := !(strings.HasPrefix(t[3], "4:") || strings.HasPrefix(t[3], "6:"))
		var (
			out []net.IP
			ok  bool
		)
		switch t[2] {
		case "host":
			if bad {
				return "bad-op"
			}
			addr := netip.MustParseAddr(vRwStr(t[3]))
			mapped := []netip.Addr{addr}
			ok = true
			if ag.shouldRewriteHostCandidates() { // gatherCandidatesLocal
				mapped, ok = ag.applyHostAddressRewrite(addr, mapped, iface(t[4]))
			}
			for _, a := range mapped {
				out = append(out, net.IP(a.AsSlice()))
			}
		case "hostmux":
			var ip net.IP
			if !bad {
				ip = net.ParseIP(vRwStr(t[3]))
			}
			out, ok = []net.IP{ip}, true
			if ag.shouldRewriteHostCandidates() { // gatherCandidatesLocalUDPMux
				out, ok = ag.applyHostRewriteForUDPMux(out, &net.UDPAddr{IP: ip, Port: 1})
			}
		case "srflx":
			var ip net.IP
			if !bad {
				ip = net.ParseIP(vRwStr(t[3]))
			}
			out, ok = ag.resolveSrflxAddresses(ip, iface(t[4]))
		case "relay":
			out, ok = ag.resolveRelayAddresses(relayEndpoint{address: net.ParseIP(vRwStr(t[5])), relAddr: vRwStr(t[3]), iface: iface(t[4])})
		default:
			return "bad-op"
		}
		o.stat(fmt.Sprintf("apply.%s.ok=%t", t[2], ok))
		if !ok {
			return "false -"
		}
		return "true " + vRwToks(out)
	}
	return "bad-op"
}

// ---------------------------------------------------------------------------------------------
// generators
// ---------------------------------------------------------------------------------------------

func vRw6(s string) string {
	a := netip.MustParseAddr(s).As16()
	return "6:" + new(big.Int).SetBytes(a[:]).String()
}

func vRw4(s string) string {
	a := netip.MustParseAddr(s).As4()
	return fmt.Sprintf("4:%d", uint32(a[0])<<24|uint32(a[1])<<16|uint32(a[2])<<8|uint32(a[3]))
}

type vRwPools struct {
	loc4, loc6, ext4, ext6 []string
	cidr4, cidr6           []string
	ifaces                 []string
	nets                   []string
}

func vRwMakePools() vRwPools {
	return vRwPools{
		loc4:   []string{vRw4("10.0.0.5"), vRw4("10.0.1.5"), vRw4("172.16.0.1")},
		loc6:   []string{vRw6("2001:db8:1::5"), vRw6("2001:db8:2::5"), vRw6("fd00::1")},
		ext4:   []string{vRw4("198.51.100.1"), vRw4("203.0.113.1"), vRw4("203.0.113.2")},
		ext6:   []string{vRw6("2001:db8:ffff::1"), vRw6("2001:db8:ffff::2"), vRw6("2001:db8:ffff::3")},
		cidr4:  []string{vRw4("10.0.0.0") + "/24", vRw4("10.0.0.0") + "/16"},
		cidr6:  []string{vRw6("2001:db8:1::") + "/64", vRw6("2001:db8::") + "/32"},
		ifaces: []string{"eth0", "wlan0"},
		nets:   []string{"-", "1", "2", "1,2", "3", "4,2", "1,4"},
	}
}

func vRwEnc(ty, mode int, iface, cidr, local, nets, ext string) string {
	return fmt.Sprintf("%d|%d|%s|%s|%s|%s|%s", ty, mode, iface, cidr, local, nets, ext)
}

type vRwEmitter struct {
	emit func(string)
	p    vRwPools
}

func (e *vRwEmitter) newRules(path string, rules []string) {
	enc := "-"
	if len(rules) > 0 {
		enc = strings.Join(rules, ";")
	}
	e.emit("rewrite new " + path + " " + enc)
}

func (e *vRwEmitter) lookup(ct int, ip, iface string) {
	e.emit(fmt.Sprintf("rewrite lookup %d %s %s", ct, ip, iface))
}

func (e *vRwEmitter) apply(kind, ip, iface string) {
	orig := ip
	if kind == "relay" || !(strings.HasPrefix(ip, "4:") || strings.HasPrefix(ip, "6:")) {
		orig = vRw4("192.0.2.77")
	}
	e.emit(fmt.Sprintf("rewrite apply %s %s %s %s", kind, ip, iface, orig))
}

// grid = every (type in cts) x (ip in ips) x (iface in -, eth0, wlan0)
func (e *vRwEmitter) grid(cts []int, ips []string) {
	for _, ct := range cts {
		for _, ip := range ips {
			for _, ifc := range []string{"-", "eth0", "wlan0"} {
				e.lookup(ct, ip, ifc)
			}
		}
	}
}

var vRwKinds = []string{"host", "hostmux", "srflx", "relay"}

func vRwGen(o *vOut, r *vRand, thorough bool, _ []string, emit func(string)) {
	p := vRwMakePools()
	e := &vRwEmitter{emit: emit, p: p}
	L1, L2, L3 := p.loc4[0], p.loc4[1], p.loc4[2]
	M1, M2, M3 := p.loc6[0], p.loc6[1], p.loc6[2]
	allIPs := []string{L1, L2, L3, M1, M2, M3}
	zero4, zero6 := vRw4("0.0.0.0"), vRw6("::")
	mapped := vRw6("::ffff:10.0.0.5") // IPv4-mapped IPv6 text: an IPv4 address for the code

	// ---- 0. boundary / documented examples first -------------------------------------------------
	// F3 witness (DESIGN §7): global before CIDR-only, key with and without interface name
	e.newRules("rules", []string{vRwEnc(1, 0, "-", "-", "-", "-", p.ext4[0]), vRwEnc(1, 0, "-", p.cidr4[0], "-", "-", p.ext4[1])})
	e.lookup(1, L1, "-")
	e.lookup(1, L1, "eth0")
	e.apply("host", L1, "eth0")
	// same rules in the other order (documented and coded precedence agree)
	e.newRules("rules", []string{vRwEnc(1, 0, "-", p.cidr4[0], "-", "-", p.ext4[1]), vRwEnc(1, 0, "-", "-", "-", "-", p.ext4[0])})
	e.grid([]int{1}, []string{L1, L2})
	// TestAddressRewriteRuleOrdering (the test that pins global-over-CIDR for an interface key)
	e.newRules("rules", []string{vRwEnc(1, 0, "-", "-", "-", "-", p.ext4[0]), vRwEnc(1, 0, "-", p.cidr4[0], "-", "-", p.ext4[1]), vRwEnc(1, 0, "eth0", "-", "-", "-", p.ext4[2])})
	e.grid([]int{1}, []string{L1, L2})
	// layering of the option's doc comment: iface+CIDR, iface-only, CIDR-only, global + a Local pin, every order of two
	layer := []string{
		vRwEnc(1, 0, "eth0", p.cidr4[0], "-", "-", p.ext4[0]), vRwEnc(1, 0, "eth0", "-", "-", "-", p.ext4[1]),
		vRwEnc(1, 0, "-", p.cidr4[0], "-", "-", p.ext4[2]), vRwEnc(1, 0, "-", "-", "-", "-", p.ext6[0]+","+p.ext4[0]),
		vRwEnc(1, 2, "-", "-", L1, "-", p.ext6[1]),
	}
	e.newRules("rules", layer)
	e.grid([]int{1, 2}, allIPs)
	rev := []string{layer[4], layer[3], layer[2], layer[1], layer[0]}
	e.newRules("rules", rev)
	e.grid([]int{1, 2}, allIPs)
	// family-starved catch-all (F15, fixed in /repo d6a4f83: it matches nothing): external IPv6 only, limited to IPv4 networks
	e.newRules("rules", []string{vRwEnc(1, 1, "-", "-", "-", "1", p.ext6[0])})
	e.grid([]int{1}, []string{L1, M1})
	e.apply("host", L1, "-")
	// starved rules of every type x mode x {-, Iface} x both families (one and two externals), alone (nil mapper), before and after
	// a global rule of the same type, beside the documented EMPTY rule with the same Networks; direct and through the option
	for _, ty := range []int{1, 2, 4, 0} {
		kind := map[int]string{0: "host", 1: "host", 2: "srflx", 4: "relay"}[ty]
		ct := max(ty, 1)
		for _, mo := range []int{1, 2, 0} {
			for _, ifc := range []string{"-", "eth0"} {
				for _, st := range [][2]string{{"1", p.ext6[0]}, {"2", p.ext4[0]}, {"1,3", p.ext6[1] + "," + p.ext6[2]}, {"4", p.ext4[1] + "," + p.ext4[2]}} {
					starved := vRwEnc(ty, mo, ifc, "-", "-", st[0], st[1])
					empty := vRwEnc(ty, mo, ifc, "-", "-", st[0], "-")
					global := vRwEnc(ty, 3-max(mo, 1), "-", "-", "-", "-", p.ext4[2]+","+p.ext6[2])
					for _, path := range []string{"rules", "opt"} {
						for _, rs := range [][]string{{starved}, {starved, global}, {global, starved}, {starved, empty}} {
							e.newRules(path, rs)
							for _, ip := range []string{L1, M1} {
								e.lookup(ct, ip, "-")
								e.lookup(ct, ip, "eth0")
							}
							e.apply(kind, L1, "eth0")
							e.apply(kind, M1, "-")
							o.stat("gen.starved")
						}
					}
				}
			}
		}
	}
	e.newRules("opt", []string{vRwEnc(1, 0, "-", "-", "-", "1", p.ext6[0])}) // the same through the public option
	e.grid([]int{1}, []string{L1, M1})
	e.apply("host", L1, "eth0")
	// empty lists: replace drops, append keeps; nil mapper; srflx/relay wildcard keys; IPv4-mapped text
	e.newRules("rules", []string{vRwEnc(1, 1, "-", "-", L1, "-", "-"), vRwEnc(1, 2, "-", "-", L2, "-", "-"), vRwEnc(2, 1, "-", "-", "-", "-", "-"), vRwEnc(4, 2, "-", "-", "-", "-", "-")})
	for _, k := range vRwKinds {
		for _, ip := range []string{L1, L2, L3, zero4, zero6, "bad0"} {
			if k == "host" && ip == "bad0" {
				continue
			}
			e.apply(k, ip, "-")
		}
	}
	e.newRules("rules", nil)
	e.lookup(1, L1, "-")
	e.apply("host", L1, "-")
	e.apply("relay", zero4, "-")
	e.newRules("rules", []string{vRwEnc(1, 0, "-", "-", mapped, "-", p.ext6[0]), vRwEnc(2, 0, "-", "-", zero4, "-", p.ext4[0]), vRwEnc(4, 0, "-", "-", zero6, "-", p.ext4[1])})
	e.grid([]int{1, 2, 4}, []string{L1, mapped, zero4, zero6, "bad1", "ws"})
	// the documented empty-External rules through the public option (F16, fixed in /repo 446b13f): replace = drop the candidate,
	// append = no-op; every type x mode x {-, Local} x {-, CIDR} x {-, Iface} x {-, Networks}; alone, before and after a global rule of
	// the same type; and the lists the option must still reject: blank entries only ("ws", "ws,ws") in the same scopes
	e.newRules("opt", []string{vRwEnc(1, 1, "-", "-", L1, "-", "-")}) // the former F16 witness: "drop this host address"
	e.grid([]int{1}, []string{L1, L2})
	e.apply("host", L1, "-")
	e.apply("host", L2, "-")
	for _, ty := range []int{1, 2, 4, 0} {
		kind := map[int]string{0: "host", 1: "host", 2: "srflx", 4: "relay"}[ty]
		ct := ty
		if ct == 0 {
			ct = 1
		}
		for _, mo := range []int{1, 2, 0} {
			for _, lo := range []string{"-", L1} {
				for _, ci := range []string{"-", p.cidr4[0]} {
					for _, ifc := range []string{"-", "eth0"} {
						for _, ne := range []string{"-", "1", "2", "9"} {
							empty := vRwEnc(ty, mo, ifc, ci, lo, ne, "-")
							global := vRwEnc(ty, 3-max(mo, 1), "-", "-", "-", "-", p.ext4[0]+","+p.ext6[0])
							for _, rs := range [][]string{{empty}, {empty, global}, {global, empty}} {
								e.newRules("opt", rs)
								for _, ip := range []string{L1, L2, M1} {
									e.lookup(ct, ip, "-")
									e.lookup(ct, ip, "eth0")
								}
								e.apply(kind, L1, "eth0")
								e.apply(kind, L2, "-")
								o.stat("gen.opt.empty")
							}
							for _, ws := range []string{"ws", "ws,ws"} {
								blank := vRwEnc(ty, mo, ifc, ci, lo, ne, ws)
								e.newRules("opt", []string{blank})
								e.newRules("opt", []string{global, blank})
								e.lookup(ct, L1, "-")
								o.stat("gen.opt.blank")
							}
						}
					}
				}
			}
		}
	}
	e.newRules("opt", []string{vRwEnc(1, 1, "-", "-", "-", "-", "-")}) // deny every host address
	e.grid([]int{1, 2}, []string{L1, M1})
	e.apply("host", L1, "-")
	e.apply("hostmux", M1, "-")
	e.newRules("opt", []string{vRwEnc(1, 1, "-", "-", "-", "-", "ws,"+p.ext4[0]), vRwEnc(1, 1, "-", "-", L1, "-", "ws,ws,ws")})
	e.newRules("opt", []string{vRwEnc(1, 0, "-", "-", "-", "-", p.ext4[0]+",ws,"+p.ext4[0]+","+p.ext4[1])})
	e.grid([]int{1}, []string{L1})

	// ---- 1. every single rule over the full pools x the whole key grid -----------------------------
	// (thorough: complete product; quick: every 11th rule of the same enumeration)
	exts := []string{"-", p.ext4[0], p.ext6[0], p.ext4[1] + "," + p.ext6[1], p.ext6[2] + "," + p.ext4[2] + "," + p.ext4[0]}
	cidrs := []string{"-", p.cidr4[0], p.cidr4[1], p.cidr6[0], p.cidr6[1]}
	locals := append([]string{"-"}, allIPs...)
	netsS := []string{"-", "1", "2", "1,2", "3", "4,2"}
	idx := 0
	for _, ty := range []int{0, 1, 2, 4} {
		for _, mo := range []int{0, 1, 2} {
			for _, ifc := range []string{"-", "eth0", "wlan0"} {
				for _, ci := range cidrs {
					for _, lo := range locals {
						for _, ne := range netsS {
							for _, ex := range exts {
								idx++
								if !thorough && idx%11 != 0 {
									continue
								}
								e.newRules("rules", []string{vRwEnc(ty, mo, ifc, ci, lo, ne, ex)})
								e.grid([]int{1, 2, 4}, allIPs)
								o.stat("gen.single")
							}
						}
					}
				}
			}
		}
	}

	// ---- 2. every ordered pair (thorough: triple) of rules of a reduced pool x the keys that can tell them apart ----
	type pool struct {
		ifaces, cidrs, locals, nets []string
		extKinds                    int // 0 none, 1 own-family, 2 other-family, 3 both
		modes                       []int
	}
	build := func(pl pool, v6 bool, slot int) []string {
		own, other := p.ext4[slot%3], p.ext6[slot%3]
		if v6 {
			own, other = other, own
		}
		ex := []string{"-", own, other, own + "," + other}[:pl.extKinds]
		var out []string
		for _, ifc := range pl.ifaces {
			for _, ci := range pl.cidrs {
				for _, lo := range pl.locals {
					for _, ne := range pl.nets {
						for _, x := range ex {
							for _, mo := range pl.modes {
								out = append(out, vRwEnc(1, mo, ifc, ci, lo, ne, x))
							}
						}
					}
				}
			}
		}
		return out
	}
	pairKeys4 := []string{L1, L2, L3, M1}
	pairKeys6 := []string{M1, M2, M3, L1}
	p2 := pool{[]string{"-", "eth0"}, []string{"-", p.cidr4[0], p.cidr4[1]}, []string{"-", L1}, []string{"-", "1", "2"}, 4, []int{1, 2}}
	pairs := func(pl pool, v6 bool, keys []string) {
		a, b := build(pl, v6, 0), build(pl, v6, 1)
		for _, ra := range a {
			for _, rb := range b {
				e.newRules("rules", []string{ra, rb})
				e.grid([]int{1}, keys)
				o.stat("gen.pair")
			}
		}
	}
	pairs(p2, false, pairKeys4)
	if thorough {
		p26 := pool{[]string{"-", "eth0"}, []string{"-", p.cidr6[0], p.cidr6[1]}, []string{"-", M1}, []string{"-", "1"}, 3, []int{1, 2}}
		pairs(p26, true, pairKeys6)
		p3 := pool{[]string{"-", "eth0"}, []string{"-", p.cidr4[0]}, []string{"-", L1}, []string{"-"}, 2, []int{1, 2}}
		a, b, c := build(p3, false, 0), build(p3, false, 1), build(p3, false, 2)
		for _, ra := range a {
			for _, rb := range b {
				for _, rc := range c {
					e.newRules("rules", []string{ra, rb, rc})
					e.grid([]int{1}, []string{L1, L3})
					o.stat("gen.triple")
				}
			}
		}
		// larger triple pool (Networks and other-family externals added): every triple
		p3b := pool{[]string{"-", "eth0"}, []string{"-", p.cidr4[0]}, []string{"-", L1}, []string{"-", "2"}, 3, []int{1, 2}}
		a, b, c = build(p3b, false, 0), build(p3b, false, 1), build(p3b, false, 2)
		n := 0
		for _, ra := range a {
			for _, rb := range b {
				for _, rc := range c {
					n++
					e.newRules("rules", []string{ra, rb, rc})
					e.grid([]int{1}, []string{L1, L3})
					o.stat("gen.triple.large")
				}
			}
		}
	}

	// ---- 3. random lists of length 4..6 (and 0..3) over the full pools ------------------------------
	pick := func(l []string) string { return l[r.intn(len(l))] }
	randExt := func() string {
		n := r.intn(4)
		if n == 0 {
			if r.chance(1, 24) {
				return []string{"ws", "ws,ws"}[r.intn(2)] // blank entries only: the option rejects, the compiler cannot parse them
			}
			return "-"
		}
		var xs []string
		for i := 0; i < n; i++ {
			if r.chance(1, 2) {
				xs = append(xs, pick(p.ext4))
			} else {
				xs = append(xs, pick(p.ext6))
			}
		}
		return strings.Join(xs, ",")
	}
	randRule := func() string {
		ty := []int{0, 1, 1, 1, 2, 4}[r.intn(6)]
		ifc, ci, lo := "-", "-", "-"
		if r.chance(1, 2) {
			ifc = pick(p.ifaces)
		}
		if r.chance(1, 2) {
			ci = pick(append(append([]string{}, p.cidr4...), p.cidr6...))
		}
		if r.chance(1, 3) {
			lo = pick(allIPs)
			if r.chance(1, 20) {
				lo = pick([]string{mapped, zero4, zero6, "ws"})
			}
		}
		ne := "-"
		if r.chance(1, 3) {
			ne = pick(p.nets)
		}
		return vRwEnc(ty, r.intn(3), ifc, ci, lo, ne, randExt())
	}
	nRandom := 1200
	if thorough {
		nRandom = 25000
	}
	keyPool := append(append([]string{}, allIPs...), zero4, zero6, mapped)
	for i := 0; i < nRandom; i++ {
		n := 4 + r.intn(3)
		if r.chance(1, 8) {
			n = r.intn(4)
		}
		var rules []string
		for j := 0; j < n; j++ {
			rules = append(rules, randRule())
		}
		path := "rules"
		if r.chance(1, 6) {
			path = "opt"
		}
		e.newRules(path, rules)
		o.stat("gen.random")
		for j := 0; j < 18; j++ {
			ifc := "-"
			if r.chance(2, 3) {
				ifc = pick(p.ifaces)
			}
			e.lookup([]int{1, 1, 2, 4, 0, 3}[r.intn(6)], pick(keyPool), ifc)
		}
		for j := 0; j < 4; j++ {
			ifc := "-"
			if r.chance(1, 2) {
				ifc = pick(p.ifaces)
			}
			e.apply(vRwKinds[r.intn(4)], pick(keyPool), ifc)
		}
	}

	// ---- 4. invalid rule sets ------------------------------------------------------------------------
	good := []string{
		vRwEnc(1, 0, "-", "-", "-", "-", p.ext4[0]), vRwEnc(2, 0, "eth0", "-", "-", "-", p.ext4[1]),
		vRwEnc(4, 1, "-", p.cidr4[0], L1, "-", p.ext6[0]), vRwEnc(1, 2, "-", "-", M1, "2", "-"),
	}
	defects := []string{}
	for k := range vRwBad {
		b := fmt.Sprintf("bad%d", k)
		defects = append(defects,
			vRwEnc(1, 0, "-", "-", "-", "-", b), vRwEnc(1, 0, "-", "-", "-", "-", p.ext4[0]+","+b),
			vRwEnc(1, 0, "-", "-", b, "-", p.ext4[0]))
		if k != 2 { // vRwBad[2] is a well-formed CIDR
			defects = append(defects, vRwEnc(1, 0, "-", b, "-", "-", p.ext4[0]))
		}
	}
	defects = append(defects,
		vRwEnc(1, 0, "-", "-", "-", "-", "ws"), vRwEnc(1, 0, "-", "ws", "-", "-", p.ext4[0]), vRwEnc(1, 0, "-", "-", "ws", "-", p.ext4[0]),
		vRwEnc(1, 0, "-", vRw4("10.0.0.0")+"/33", "-", "-", p.ext4[0]), vRwEnc(1, 0, "-", vRw6("2001:db8::")+"/129", "-", "-", p.ext4[0]),
		vRwEnc(1, 0, "-", p.cidr4[0], L2, "-", p.ext4[0]), vRwEnc(1, 0, "-", p.cidr4[0], M1, "-", p.ext4[0]),
		vRwEnc(1, 0, "-", p.cidr6[0], M2, "-", p.ext4[0]), vRwEnc(1, 0, "-", p.cidr6[0], L1, "-", p.ext4[0]),
		vRwEnc(3, 0, "-", "-", "-", "-", p.ext4[0]), vRwEnc(3, 0, "-", "bad0", "-", "-", "bad1"), vRwEnc(3, 0, "-", "-", "-", "9", "bad1"),
		vRwEnc(1, 0, "-", "-", "-", "9", "bad1"), vRwEnc(1, 0, "-", "bad0", "bad1", "0,7", p.ext4[0]), vRwEnc(1, 0, "-", "-", "-", "9,1", "bad1"),
		vRwEnc(1, 3, "-", "-", "-", "-", p.ext4[0]), vRwEnc(1, 0, "-", "-", "-", "-", "-"), vRwEnc(1, 0, "-", "-", "-", "1", p.ext6[0]),
		vRwEnc(7, 0, "-", "-", "-", "-", p.ext4[0]),
	)
	for _, path := range []string{"rules", "opt"} {
		for _, d := range defects {
			e.newRules(path, []string{d})
			e.lookup(1, L1, "-")
			for _, g := range good {
				e.newRules(path, []string{g, d})
				e.newRules(path, []string{d, g})
				e.lookup(1, L1, "eth0")
			}
			e.newRules(path, []string{good[0], good[1], d})
			e.newRules(path, []string{good[0], d, defects[r.intn(len(defects))]})
			o.stat("gen.invalid")
		}
	}
	// legacy NAT1To1IPs entries: every list up to length 2 (thorough: 3) over a pool of parts
	parts := []string{p.ext4[0], p.ext4[1], p.ext6[0], p.ext6[1], p.ext4[2] + "/" + L1, p.ext6[2] + "/" + M1, p.ext4[0] + "/" + M1, mapped,
		"e", "bad0", p.ext4[0] + "/e", "e/" + L1, p.ext4[0] + "/" + L1 + "/" + L2, p.ext4[0] + "/bad3", "bad1/" + L1, "ws"}
	legacy := func(ty int, es []string) {
		enc := "-"
		if len(es) > 0 {
			enc = strings.Join(es, ",")
		}
		emit(fmt.Sprintf("rewrite new legacy %d %s", ty, enc))
		ct := ty
		if ct == 0 {
			ct = 1
		}
		e.lookup(ct, L1, "-")
		e.lookup(ct, M1, "eth0")
		o.stat("gen.legacy")
	}
	for _, ty := range []int{0, 1, 2, 4, 3} {
		legacy(ty, nil)
		for _, a := range parts {
			legacy(ty, []string{a})
			for _, b := range parts {
				legacy(ty, []string{a, b})
				if thorough && ty <= 1 {
					for _, c := range parts {
						legacy(ty, []string{a, b, c})
					}
				}
			}
		}
	}
	for i := 0; i < 300; i++ {
		var es []string
		for j, n := 0, 3+r.intn(3); j < n; j++ {
			es = append(es, pick(parts))
		}
		legacy([]int{0, 1, 2, 4}[r.intn(4)], es)
	}
}
