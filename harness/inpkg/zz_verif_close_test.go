//go:build verif && go1.25

package ice

// Component "close" (property C08): REAL agents under testing/synctest with scripted blocking sockets,
// parked API goroutines, blocking / re-entrant / closing handlers and gathering, with Close/GracefulClose
// injected at every position of generated operation sequences.  See DESIGN.md §5 C08 and notes/C08.md.
//
// ops (tokens after "close"):
//   new <id>                          two agents A, B over the hub (A with a small fake transport.Net)
//   cand <A|B> <addr> <mode>          addCandidate with a scripted socket; mode letters: n plain, w writes block, e Close fails,
//                                     fault profile (see vcConn): a blocked write is released by D deadline only | C Close only |
//                                     X nothing but the environment (passw) [default: deadline or Close]; a blocked read by
//                                     Q deadline only | R Close only [default: either]; s Close is slow (returns after the writes released
//                                     by the deadline are back at their callers)
//   tcpmux <A|B> <rbs>                a REAL TCPMuxDefault (fake listener, ReadBufferSize rbs) becomes the agent's TCPMux and tcp4 is
//                                     enabled: the next gather adds a passive TCP host candidate over a real tcpPacketConn
//   tcppeer <A|B> <k>                 a TCP client connects to the mux and sends k framed binding requests for the agent's ufrag
//   tcpsend <A|B> <i> <k>             client i sends k more frames
//   turn <A|B> <udp|tcp|tls|dtls> <stage> [<types>]   relay gathering against a STALLED TURN server (see vcStall): the agent gets one
//                                     turn:/turns: URL of that transport flavour and candidate types <types> (letters h s r, default hr);
//                                     stage: silent = the server is reached (UDP socket / TCP connection / DialUDP) but never answers
//                                     (allocation request, TLS ClientHello, DTLS ClientHello swallowed); dial = DialTCP does not
//                                     return before the session ends (tcp, tls); dial<ms> = DialTCP fails after <ms> virtual ms;
//                                     late<ms> = DialTCP succeeds after <ms> virtual ms, the server then stays silent
//   remote <A|B> <addr>               AddRemoteCandidate(host candidate at addr)
//   start <A|B> <ctl>                 startConnect          dial <A|B> / accept <A|B>: Dial / Accept (blocking)
//   read <A|B>  write <A|B> <len>  await <A|B>              blocking API calls, each in its own goroutine
//   api <A|B> <getlocal|getremote|restart|gather|creds|stats|selected>
//   blockw <A|B> <addr> <0|1>         make the socket's writes block / pass again
//   passw <A|B> <addr>                environment lets ONE blocked write on that socket complete
//   hdl <A|B> <cs|cand|pair> <none|block|getlocal|addremote|restart|close|gclose>   behaviour of the handler from now on
//   release <A|B>                     release handlers blocked in mode "block"
//   close <A|B> <0|1> [<0|1>]         Close / GracefulClose from a new goroutine (two values: two concurrent closers)
//   adv <ms>   flush <rounds>         virtual time; deliver all in-flight datagrams
//   end                               release handlers, GracefulClose every agent, advance by the bound, census
//   r1 <n>                            (outside sessions) n trials of the scenario behind modelling fact R1
//   coverage                          (outside sessions, last op of a generated run) how often the run reached the situations the
//                                     generator aims at: agents Connected, a Conn.Write parked in a socket, a full TCP receive queue,
//                                     a TURN control connection stalled after the agent wrote to it; the driver rejects a 0
//                                     (a change of the shared hub once made every session silently stop connecting)
// output of every op: t=<ms>;E[<events>];A{<digest>};B{<digest>}   (see vcSession.digest / vcRec)
// a session whose id starts with "m" is checked by the spec monitor only (its environment lies outside the model's
// assumptions: slow socket Close, writes nothing aborts, the TCP mux); "w" is the deadlock witness
// events: C<id>:<agent>:<kind>[:<detail>]  R<id>:<err>  H<agent><stream>:<ev>:enter|exit  all suffixed @<ms>

import (
	"context"
	"errors"
	"fmt"
	"io"
	"net"
	"os"
	"runtime"
	"strings"
	"sync"
	"testing"
	"testing/synctest"
	"time"

	"github.com/pion/stun/v3"
	"github.com/pion/transport/v4"
)

func init() { vComponents["close"] = &vComp{gen: vcGen, exec: vcExec} }

// virtual-time bound on every call (see notes/C08.md "bound"): no timer lies on the Close path of a host-only
// agent; the timers a Close can wait for are those of the gather cycle it waits for: the STUN gather timeout (5 s)
// and, with a TURN URL, one TURN transaction that is never answered (7 transmissions, RTO 200 ms doubling up to
// 1.6 s = 7.8 s; Allocate is not cancellable), after a dial of at most 2.5 s in the generated sessions.
const vcBoundMs = 10000

// ---- recorder ----

type vcRec struct {
	mu    sync.Mutex
	ev    []string
	epoch time.Time
	nid   int
}

func (r *vcRec) add(format string, a ...any) {
	r.mu.Lock()
	r.ev = append(r.ev, fmt.Sprintf(format, a...)+fmt.Sprintf("@%d", time.Since(r.epoch).Milliseconds()))
	r.mu.Unlock()
}
func (r *vcRec) id() int { r.mu.Lock(); r.nid++; n := r.nid; r.mu.Unlock(); return n }
func (r *vcRec) take() []string {
	r.mu.Lock()
	e := r.ev
	r.ev = nil
	r.mu.Unlock()
	return e
}

func vcErr(err error) string {
	switch {
	case err == nil:
		return "ok"
	case errors.Is(err, ErrClosed):
		return "closed"
	case errors.Is(err, io.ErrClosedPipe), errors.Is(err, io.EOF), errors.Is(err, net.ErrClosed), errors.Is(err, os.ErrDeadlineExceeded):
		return "io"
	case errors.Is(err, ErrCanceledByCaller), errors.Is(err, context.Canceled):
		return "canceled"
	case errors.Is(err, ErrMultipleStart):
		return "multiplestart"
	case errors.Is(err, ErrNoCandidatePairs):
		return "nopairs"
	case errors.Is(err, ErrMultipleGatherAttempted):
		return "multiplegather"
	}
	return "other:" + strings.NewReplacer(" ", "_", ";", ",", "|", "/", "[", "(", "]", ")", "@", "_").Replace(err.Error())
}

// ---- scripted socket ----

// vcConn is a hub endpoint whose WriteTo can block until the deadline is set to now / the write is let
// through by the environment / the socket is closed, and whose Close can fail or be slow.  Fault profile: which of
// the two abort actions of candidateBase.abortIO (SetDeadline(now), then Close) releases a blocked write / read.
// A real UDP socket releases both by either; the profiles are the sub-behaviours a wrapped / muxed / fake
// net.PacketConn may have (vcRelDeadline|vcRelClose = the real socket).
type vcConn struct {
	*vEP
	mu       sync.Mutex
	blockW   bool
	closeErr bool
	// Close is slow: it completes only after every write that its deadline has released is back at its caller
	// (the socket's WriteTo has returned and, for Conn.Write calls made by the test, Conn.Write has returned).
	// Not a sleep: the loop's onClose waits for the closer on the sync.Once of abortIO, i.e. on a mutex, and a
	// goroutine waiting for a mutex is not durably blocked — the virtual clock would never advance.
	slow  bool
	userW int // Conn.Write calls of the test in flight through this socket
	rdl    time.Time     // read deadline (a future one ends a blocked read when it passes)
	dlWake chan struct{} // closed and replaced whenever the read deadline changes
	cond  *sync.Cond
	wRel     int  // what releases a blocked write (vcRelDeadline | vcRelClose; 0 = only the environment)
	rRel     int  // what releases a blocked read
	rel      chan struct{} // closed once a deadline in the past has been set
	relOnce  sync.Once
	pass     chan struct{} // environment: one blocked write may complete
	nblocked int
	rec      *vcRec
	name     string
}

const (
	vcRelDeadline = 1
	vcRelClose    = 2
)

func vcChanIf(on bool, ch chan struct{}) <-chan struct{} {
	if on {
		return ch
	}
	return nil
}

func (c *vcConn) WriteTo(b []byte, a net.Addr) (int, error) {
	c.mu.Lock()
	blk, wRel := c.blockW, c.wRel
	if blk {
		c.nblocked++
	}
	c.mu.Unlock()
	if blk {
		defer func() { c.mu.Lock(); c.nblocked--; c.cond.Broadcast(); c.mu.Unlock() }()
		select {
		case <-vcChanIf(wRel&vcRelClose != 0, c.closed):
			return 0, io.ErrClosedPipe
		case <-vcChanIf(wRel&vcRelDeadline != 0, c.rel):
			return 0, os.ErrDeadlineExceeded
		case <-c.pass:
		}
	}
	select {
	case <-c.rel:
		return 0, os.ErrDeadlineExceeded
	default:
	}
	return c.vEP.WriteTo(b, a)
}

func (c *vcConn) ReadFrom(b []byte) (int, net.Addr, error) {
	for {
		// a read deadline in the future (srflx gathering: stunGatherTimeout) is honoured like a real socket's
		c.mu.Lock()
		dl, w := c.rdl, c.dlWake
		c.mu.Unlock()
		var tc <-chan time.Time
		var tm *time.Timer
		if !dl.IsZero() && c.rRel&vcRelDeadline != 0 {
			d := time.Until(dl)
			if d <= 0 {
				return 0, nil, os.ErrDeadlineExceeded
			}
			tm = time.NewTimer(d)
			tc = tm.C
		}
		var d vDgram
		got, again := false, false
		var err error
		select {
		case d = <-c.ch:
			got = true
		case <-vcChanIf(c.rRel&vcRelClose != 0, c.closed):
			err = io.EOF
		case <-vcChanIf(c.rRel&vcRelDeadline != 0, c.rel):
			err = os.ErrDeadlineExceeded
		case <-w:
			again = true
		case <-tc:
			again = true
		}
		if tm != nil {
			tm.Stop()
		}
		switch {
		case got:
			return copy(b, d.data), d.from, nil
		case !again:
			return 0, nil, err
		}
	}
}

func (c *vcConn) setDL(t time.Time) {
	if !t.IsZero() && !t.After(time.Now()) {
		c.relOnce.Do(func() { close(c.rel) })
	}
}
func (c *vcConn) setRDL(t time.Time) {
	c.mu.Lock()
	c.rdl = t
	close(c.dlWake)
	c.dlWake = make(chan struct{})
	c.mu.Unlock()
}
func (c *vcConn) SetDeadline(t time.Time) error      { c.setDL(t); c.setRDL(t); return nil }
func (c *vcConn) SetReadDeadline(t time.Time) error  { c.setDL(t); c.setRDL(t); return nil }
func (c *vcConn) SetWriteDeadline(t time.Time) error { c.setDL(t); return nil }
func (c *vcConn) Close() error {
	c.mu.Lock()
	if c.slow && c.wRel&vcRelDeadline != 0 {
		select {
		case <-c.rel: // the deadline has been armed (abortIO does it first): the writes it releases come back first
			for c.nblocked > 0 || c.userW > 0 {
				c.cond.Wait()
			}
			// … and whoever was released gets some real time to go on (a loop task released here finishes; were the
			// loop still taking tasks it would start the next one) before this Close completes
			c.mu.Unlock()
			for i := 0; i < 2000; i++ {
				runtime.Gosched()
			}
			c.mu.Lock()
		default:
		}
	}
	c.mu.Unlock()
	_ = c.vEP.Close()
	if c.closeErr {
		return errors.New("scripted close failure")
	}
	return nil
}

// giveUp (end of the session): the environment stops holding writes that nothing aborts.
func (c *vcConn) giveUp() {
	c.mu.Lock()
	none := 0
	if c.wRel == 0 {
		none = c.nblocked
		c.wRel = vcRelDeadline | vcRelClose
	}
	c.mu.Unlock()
	for i := 0; i < none; i++ {
		select {
		case c.pass <- struct{}{}:
		default:
		}
	}
}

// the extra methods of transport.UDPConn (host gathering listens through the fake Net)
func (c *vcConn) RemoteAddr() net.Addr                 { return nil }
func (c *vcConn) SetReadBuffer(int) error              { return nil }
func (c *vcConn) SetWriteBuffer(int) error             { return nil }
func (c *vcConn) Read(b []byte) (int, error)           { n, _, err := c.ReadFrom(b); return n, err }
func (c *vcConn) Write(b []byte) (int, error)          { return 0, errors.New("not connected") }
func (c *vcConn) ReadFromUDP(b []byte) (int, *net.UDPAddr, error) {
	n, a, err := c.ReadFrom(b)
	ua, _ := a.(*net.UDPAddr)
	return n, ua, err
}
func (c *vcConn) ReadMsgUDP(b, _ []byte) (int, int, int, *net.UDPAddr, error) {
	n, ua, err := c.ReadFromUDP(b)
	return n, 0, 0, ua, err
}
func (c *vcConn) WriteToUDP(b []byte, a *net.UDPAddr) (int, error) { return c.WriteTo(b, a) }
func (c *vcConn) WriteMsgUDP(b, _ []byte, a *net.UDPAddr) (int, int, error) {
	n, err := c.WriteTo(b, a)
	return n, 0, err
}

// vcNet: one interface "eth0" with one IPv4 address; ListenUDP hands out scripted sockets on the hub; the TURN
// control connections (ListenPacket / DialTCP / DialUDP) reach a stalled server.
type vcNet struct {
	transport.Net
	s     *vcSession
	owner *vcAgent
	ip    int
	nport int
	// stalled TURN server
	mu       sync.Mutex
	stage    string        // "silent" | "dial" | "dial<ms>" | "late<ms>"
	dialHold chan struct{} // closed at the end of the session: releases DialTCP calls of stage "dial"
	stalls   []*vcStall
	ndial    int // DialTCP calls that have not returned
}

func (n *vcNet) Interfaces() ([]*transport.Interface, error) {
	ifc := transport.NewInterface(net.Interface{Index: 1, MTU: 1500, Name: "eth0", Flags: net.FlagUp})
	ifc.AddAddress(&net.IPNet{IP: vAddr(0, 16*n.ip).IP, Mask: net.CIDRMask(24, 32)})
	return []*transport.Interface{ifc}, nil
}
func (n *vcNet) ListenUDP(network string, la *net.UDPAddr) (transport.UDPConn, error) {
	n.nport++
	return n.s.newConn(n.owner, 16*n.ip+8+n.nport%8, "n"), nil
}
func (n *vcNet) ResolveUDPAddr(network, address string) (*net.UDPAddr, error) {
	return net.ResolveUDPAddr(network, address)
}
func (n *vcNet) ResolveTCPAddr(network, address string) (*net.TCPAddr, error) {
	return net.ResolveTCPAddr(network, address)
}

func (n *vcNet) newStall(kind string, remote net.Addr) *vcStall {
	n.mu.Lock()
	defer n.mu.Unlock()
	ip, port := vAddr(0, 16*n.ip).IP, 6000+len(n.stalls)
	c := &vcStall{kind: kind, remote: remote, closed: make(chan struct{}), wake: make(chan struct{})}
	if kind == "tcp" {
		c.local = &net.TCPAddr{IP: ip, Port: port}
	} else {
		c.local = &net.UDPAddr{IP: ip, Port: port}
	}
	n.stalls = append(n.stalls, c)
	return c
}

// ListenPacket: the local socket of a turn: URL over UDP; the server never answers.
func (n *vcNet) ListenPacket(network, address string) (net.PacketConn, error) {
	return &vcStallUDP{n.newStall("udp", nil)}, nil
}

// DialUDP: the connected socket of a turns: URL over UDP (DTLS); the server never answers.
func (n *vcNet) DialUDP(network string, la, ra *net.UDPAddr) (transport.UDPConn, error) {
	return &vcStallUDP{n.newStall("dtls", ra)}, nil
}

// DialTCP: the TCP connection of a turn:/turns: URL over TCP.  transport.Net's DialTCP takes no context.
func (n *vcNet) DialTCP(network string, la, ra *net.TCPAddr) (transport.TCPConn, error) {
	n.mu.Lock()
	stage, hold := n.stage, n.dialHold
	n.ndial++
	n.mu.Unlock()
	defer func() { n.mu.Lock(); n.ndial--; n.mu.Unlock() }()
	switch {
	case strings.HasPrefix(stage, "late"): // the connection is established late; the server then stays silent
		time.Sleep(time.Duration(vAtoi(stage[4:])) * time.Millisecond)
	case strings.HasPrefix(stage, "dial"):
		if ms := vAtoi(stage[4:]); ms > 0 { // the SYNs are lost: connect fails after the OS's timeout
			time.Sleep(time.Duration(ms) * time.Millisecond)
		} else {
			<-hold
		}
		return nil, &net.OpError{Op: "dial", Net: network, Addr: ra, Err: os.ErrDeadlineExceeded}
	}
	return &vcStallTCP{n.newStall("tcp", ra)}, nil
}

// vcStall: one end of a connection to a server that accepted it (or a UDP socket towards it) and stays silent:
// writes are swallowed, reads block until the connection is closed or its read deadline passes.
type vcStall struct {
	kind          string
	local, remote net.Addr
	mu            sync.Mutex
	closed        chan struct{}
	isClosed      bool
	rdl           time.Time
	wake          chan struct{}
	nw            int // bytes swallowed
}

func (c *vcStall) Read(b []byte) (int, error) {
	for {
		c.mu.Lock()
		if c.isClosed {
			c.mu.Unlock()
			return 0, &net.OpError{Op: "read", Net: c.kind, Err: net.ErrClosed}
		}
		dl, w := c.rdl, c.wake
		c.mu.Unlock()
		var tc <-chan time.Time
		var tm *time.Timer
		if !dl.IsZero() {
			d := time.Until(dl)
			if d <= 0 {
				return 0, &net.OpError{Op: "read", Net: c.kind, Err: os.ErrDeadlineExceeded}
			}
			tm = time.NewTimer(d)
			tc = tm.C
		}
		select {
		case <-w:
		case <-tc:
		}
		if tm != nil {
			tm.Stop()
		}
	}
}

func (c *vcStall) Write(b []byte) (int, error) {
	c.mu.Lock()
	defer c.mu.Unlock()
	if c.isClosed {
		return 0, &net.OpError{Op: "write", Net: c.kind, Err: net.ErrClosed}
	}
	c.nw += len(b)
	return len(b), nil
}

func (c *vcStall) Close() error {
	c.mu.Lock()
	defer c.mu.Unlock()
	if c.isClosed {
		return &net.OpError{Op: "close", Net: c.kind, Err: net.ErrClosed}
	}
	c.isClosed = true
	close(c.closed)
	close(c.wake)
	c.wake = make(chan struct{})
	return nil
}
func (c *vcStall) LocalAddr() net.Addr  { return c.local }
func (c *vcStall) RemoteAddr() net.Addr { return c.remote }
func (c *vcStall) SetReadDeadline(t time.Time) error {
	c.mu.Lock()
	defer c.mu.Unlock()
	c.rdl = t
	close(c.wake)
	c.wake = make(chan struct{})
	return nil
}
func (c *vcStall) SetWriteDeadline(time.Time) error { return nil }
func (c *vcStall) SetDeadline(t time.Time) error    { return c.SetReadDeadline(t) }
func (c *vcStall) SetReadBuffer(int) error          { return nil }
func (c *vcStall) SetWriteBuffer(int) error         { return nil }

type vcStallTCP struct{ *vcStall }

func (c *vcStallTCP) CloseRead() error                     { return nil }
func (c *vcStallTCP) CloseWrite() error                    { return nil }
func (c *vcStallTCP) ReadFrom(r io.Reader) (int64, error)  { return io.Copy(struct{ io.Writer }{c.vcStall}, r) }
func (c *vcStallTCP) SetLinger(int) error                  { return nil }
func (c *vcStallTCP) SetKeepAlive(bool) error              { return nil }
func (c *vcStallTCP) SetKeepAlivePeriod(time.Duration) error { return nil }
func (c *vcStallTCP) SetNoDelay(bool) error                { return nil }

type vcStallUDP struct{ *vcStall }

func (c *vcStallUDP) ReadFrom(b []byte) (int, net.Addr, error) {
	n, err := c.Read(b)
	return n, c.remote, err
}
func (c *vcStallUDP) WriteTo(b []byte, _ net.Addr) (int, error) { return c.Write(b) }
func (c *vcStallUDP) ReadFromUDP(b []byte) (int, *net.UDPAddr, error) {
	n, err := c.Read(b)
	ua, _ := c.remote.(*net.UDPAddr)
	return n, ua, err
}
func (c *vcStallUDP) ReadMsgUDP(b, _ []byte) (int, int, int, *net.UDPAddr, error) {
	n, ua, err := c.ReadFromUDP(b)
	return n, 0, 0, ua, err
}
func (c *vcStallUDP) WriteToUDP(b []byte, _ *net.UDPAddr) (int, error) { return c.Write(b) }
func (c *vcStallUDP) WriteMsgUDP(b, _ []byte, _ *net.UDPAddr) (int, int, error) {
	n, err := c.Write(b)
	return n, 0, err
}

// ---- agents ----

type vcCand struct {
	addr int
	c    *CandidateHost
	conn *vcConn
}

type vcAgent struct {
	h        *vAgentH
	letter   string
	mu       sync.Mutex
	mode     [3]string     // handler behaviour per stream (cs, cand, pair)
	release  chan struct{} // closed to release handlers in mode "block"
	cands    []*vcCand
	conn     *Conn
	closedBy bool // the test has called Close/GracefulClose on it
	net      *vcNet
	nclosing int // Close / GracefulClose calls made by the test through op `close` / `end` that have not returned
	nheld    int // handlers of this agent the test holds in mode "block"
	turn string // "<flavour>:<stage>" once a stalled TURN server has been configured (op turn)
	// ICE-TCP: a real TCPMuxDefault over a fake listener, scripted TCP clients
	mux   *TCPMuxDefault
	lis   *vTcpListener
	rbs   int
	peers []*vTcpConn
}

type vcSession struct {
	base *vSession
	rec  *vcRec
	ag   map[string]*vcAgent
	wg   sync.WaitGroup
}

func (s *vcSession) newConn(owner *vcAgent, addr int, mode string) *vcConn {
	ua := vAddr(0, addr)
	ep := &vEP{h: s.base.hub, owner: owner.h, addr: ua, ch: make(chan vDgram, 4096), closed: make(chan struct{})}
	c := &vcConn{vEP: ep, blockW: strings.Contains(mode, "w"), closeErr: strings.Contains(mode, "e"),
		slow: strings.Contains(mode, "s"), wRel: vcRelDeadline | vcRelClose, rRel: vcRelDeadline | vcRelClose,
		rel: make(chan struct{}), pass: make(chan struct{}), rec: s.rec, name: fmt.Sprint(addr)}
	c.cond = sync.NewCond(&c.mu)
	c.dlWake = make(chan struct{})
	switch {
	case strings.Contains(mode, "D"):
		c.wRel = vcRelDeadline
	case strings.Contains(mode, "C"):
		c.wRel = vcRelClose
	case strings.Contains(mode, "X"):
		c.wRel = 0
	}
	switch {
	case strings.Contains(mode, "Q"):
		c.rRel = vcRelDeadline
	case strings.Contains(mode, "R"):
		c.rRel = vcRelClose
	}
	s.base.hub.mu.Lock()
	// keys as the shared hub uses them (vKey: network + address); every socket address is used once per session
	s.base.hub.eps[vKey(ua)] = append(s.base.hub.eps[vKey(ua)], ep)
	s.base.hub.mu.Unlock()
	vAddrOwner[vKey(ua)] = owner.h
	owner.mu.Lock()
	owner.cands = append(owner.cands, &vcCand{addr: addr, conn: c})
	owner.mu.Unlock()
	return c
}

var vcStreams = []string{"cs", "cand", "pair"}

func (s *vcSession) handler(ag *vcAgent, stream int, ev string) {
	ag.mu.Lock()
	mode, rel := ag.mode[stream], ag.release
	ag.mu.Unlock()
	s.rec.add("H%s%d:%s:enter:%s", ag.letter, stream, ev, mode)
	if stream == 0 && ev == "Connected" {
		vcCovAdd("connected")
	}
	a := ag.h.a
	hcall := func(kind string, f func() error) {
		id := s.rec.id()
		s.rec.add("C%d:%s:h%s", id, ag.letter, kind)
		err := f()
		s.rec.add("R%d:%s", id, vcErr(err))
	}
	switch mode {
	case "block":
		ag.mu.Lock()
		ag.nheld++
		ag.mu.Unlock()
		<-rel
		ag.mu.Lock()
		ag.nheld--
		ag.mu.Unlock()
	case "getlocal":
		hcall("getlocal", func() error { _, err := a.GetLocalCandidates(); return err })
	case "addremote":
		hcall("addremote", func() error {
			c, err := vNewCand(1, 0, 16*29+stream, 100, "-")
			if err != nil {
				return err
			}
			return a.AddRemoteCandidate(c)
		})
	case "restart":
		hcall("restart", func() error { return a.Restart("", "") })
	case "close":
		hcall("close", func() error { return a.Close() })
	case "gclose": // contract violation; used only by the deadlock-witness session
		hcall("gclose", func() error { return a.GracefulClose() })
	}
	s.rec.add("H%s%d:%s:exit", ag.letter, stream, ev)
}

func (s *vcSession) newAgent(letter string, ip int) (*vcAgent, error) {
	ag := &vcAgent{letter: letter, release: make(chan struct{})}
	for i := range ag.mode {
		ag.mode[i] = "none"
	}
	h, err := s.base.newAgent(letter, fmt.Sprintf("tb=%d,u=u%s0,p=p%s0,ka=300,ci=100,disc=2000,fail=4000", ip, letter, letter))
	if err != nil {
		return nil, err
	}
	ag.h = h
	ag.net = &vcNet{s: s, owner: ag, ip: ip, dialHold: make(chan struct{})}
	h.a.net = ag.net // gathering goes through the fake Net (set before any gather starts)
	a := h.a
	_ = a.OnConnectionStateChange(func(st ConnectionState) { s.handler(ag, 0, st.String()) })
	_ = a.OnCandidate(func(c Candidate) {
		ev := "nil"
		if c != nil {
			ev = "c"
		}
		s.handler(ag, 1, ev)
	})
	_ = a.OnSelectedCandidatePairChange(func(_, _ Candidate) { s.handler(ag, 2, "pair") })
	return ag, nil
}

// call runs f in its own goroutine and records call / return.
func (s *vcSession) call(ag *vcAgent, kind string, f func() error) {
	id := s.rec.id()
	s.rec.add("C%d:%s:%s", id, ag.letter, kind)
	s.wg.Add(1)
	go func() {
		defer s.wg.Done()
		err := f()
		s.rec.add("R%d:%s", id, vcErr(err))
	}()
}

// closer starts a Close / GracefulClose of the agent in its own goroutine.
func (s *vcSession) closer(ag *vcAgent, graceful bool) {
	ag.mu.Lock()
	ag.nclosing++
	ag.mu.Unlock()
	kind, f := "close", ag.h.a.Close
	if graceful {
		kind, f = "gclose", ag.h.a.GracefulClose
	}
	s.call(ag, kind, func() error {
		defer func() { ag.mu.Lock(); ag.nclosing--; ag.mu.Unlock() }()
		return f()
	})
}

// stuckCloser (at a quiescent point): a Close of the test is pending although nothing of the test's making holds it
// (no handler held in mode "block", no write that only the environment releases).  That closer may sit INSIDE the
// sync.Once of the task loop / of abortIO; another closer would then wait for the Once's mutex, which is not a
// durable block: synctest.Wait would spin until the wall-clock watchdog.  So no further closer is piled on it; the
// virtual clock goes on and clause (B) reports the one that hangs.
func (s *vcSession) stuckCloser(ag *vcAgent) (stuck bool) {
	ag.mu.Lock()
	defer ag.mu.Unlock()
	if ag.nclosing == 0 || ag.nheld > 0 {
		return false
	}
	defer func() {
		if stuck {
			vcSkipped++ // statistic `close.skipped-closer`: stays 0 on a tree that satisfies the property
		}
	}()
	if ag.turn != "" {
		// the stalled TURN server holds the gather cycle (the closer then waits OUTSIDE the loop's Once, for
		// taskLoopDone): further closers are durably blocked like the first
		n := ag.net
		n.mu.Lock()
		busy := n.ndial > 0
		for _, c := range n.stalls {
			c.mu.Lock()
			busy = busy || !c.isClosed
			c.mu.Unlock()
		}
		n.mu.Unlock()
		if busy {
			return false
		}
	}
	for _, k := range ag.cands {
		k.conn.mu.Lock()
		held := k.conn.wRel == 0 && k.conn.nblocked > 0
		k.conn.mu.Unlock()
		if held {
			return false
		}
	}
	return true
}

func vcClosed(ch <-chan struct{}) int {
	if ch == nil {
		return 0
	}
	select {
	case <-ch:
		return 1
	default:
		return 0
	}
}

// digest: the shutdown-relevant state of the real agent at a quiescent point (every goroutine of the bubble
// is durably blocked, so the plain reads below do not race with anything).
func (s *vcSession) digest(ag *vcAgent) string {
	a := ag.h.a
	var ks []string
	ag.mu.Lock()
	cands := append([]*vcCand{}, ag.cands...)
	ag.mu.Unlock()
	for _, k := range cands {
		if k.c == nil { // a socket handed out by the fake Net: find the gathered host candidate that owns it
			for _, cs := range a.localCandidates {
				for _, c := range cs {
					if hc, ok := c.(*CandidateHost); ok && hc.conn == net.PacketConn(k.conn) {
						k.c = hc
					}
				}
			}
		}
		st := "--"
		if k.c != nil && k.c.closeCh != nil {
			st = fmt.Sprintf("%d%d", vcClosed(k.c.closeCh), vcClosed(k.c.closedCh))
		}
		k.conn.mu.Lock()
		nb := k.conn.nblocked
		k.conn.mu.Unlock()
		ks = append(ks, fmt.Sprintf("%d:%s:s%d:b%d", k.addr, st, vcClosed(k.conn.closed), nb))
	}
	var ns []string
	for _, h := range []*handlerNotifier{a.connectionStateNotifier, a.candidateNotifier, a.selectedCandidatePairNotifier} {
		h.Lock()
		run := 0
		if h.runningConnectionStates || h.runningCandidates || h.runningCandidatePairs {
			run = 1
		}
		ns = append(ns, fmt.Sprintf("%d%d%d", vcClosed(h.done), run, len(h.connectionStates)+len(h.candidates)+len(h.selectedCandidatePairs)))
		h.Unlock()
	}
	nl, nr := 0, 0
	for _, cs := range a.localCandidates {
		nl += len(cs)
	}
	for _, cs := range a.remoteCandidates {
		nr += len(cs)
	}
	x := 0
	if a.connectionState == ConnectionStateClosed {
		x = 1
	}
	tcp := ""
	if ag.mux != nil {
		// T=<ReadBufferSize>:<packet conns of the agent's ufrags in the mux>:<queued packets>:<open TCP connections>:<clients closed by the mux>
		npc, nq, nconn, ncl := 0, 0, 0, 0
		ag.mux.mu.Lock()
		for _, m := range []map[string]map[ipAddr]*tcpPacketConn{ag.mux.connsIPv4, ag.mux.connsIPv6} {
			for _, pcs := range m {
				for _, pc := range pcs {
					npc++
					nq += len(pc.recvChan)
					pc.mu.Lock()
					nconn += len(pc.conns)
					pc.mu.Unlock()
				}
			}
		}
		ag.mux.mu.Unlock()
		for _, p := range ag.peers {
			if p.isClosed() {
				ncl++
			}
		}
		if ag.rbs > 0 && nq >= ag.rbs && nconn > 0 {
			vcCovAdd("tcpfull")
		}
		tcp = fmt.Sprintf(";T=%d:%d:%d:%d:%d", ag.rbs, npc, nq, nconn, ncl)
	}
	if ag.turn != "" {
		// R=<flavour>:<stage>:<control connections opened>:<of which closed>:<of which got bytes from the agent>:<DialTCP calls pending>
		n := ag.net
		n.mu.Lock()
		nc, nh := 0, 0
		for _, c := range n.stalls {
			c.mu.Lock()
			if c.isClosed {
				nc++
			}
			if c.nw > 0 {
				nh++
			}
			c.mu.Unlock()
		}
		if nh > nc {
			vcCovAdd("relaystalled")
		}
		tcp += fmt.Sprintf(";R=%s:%d:%d:%d:%d", ag.turn, len(n.stalls), nc, nh, n.ndial)
		n.mu.Unlock()
	}
	return fmt.Sprintf("d=%d;x=%d;K=%s;N=%s;nl=%d;nr=%d%s", vcClosed(a.loop.Done()), x, strings.Join(ks, ","), strings.Join(ns, ","), nl, nr, tcp)
}

// vcTCPFrame: an RFC 4571 framed STUN binding request addressed to the agent's ufrag (no integrity: the agent
// drops it after taking it from the queue; what matters here is the queue between the TCP reader and the agent).
func vcTCPFrame(ufrag string) []byte {
	msg, err := stun.Build(stun.BindingRequest, stun.TransactionID, stun.NewUsername(ufrag+":peer"))
	if err != nil {
		return nil
	}
	f := make([]byte, 2+len(msg.Raw))
	f[0], f[1] = byte(len(msg.Raw)>>8), byte(len(msg.Raw))
	copy(f[2:], msg.Raw)
	return f
}

func (s *vcSession) render() string {
	// move emitted datagrams to the hub
	for _, l := range []string{"A", "B"} {
		h := s.ag[l].h
		h.mu.Lock()
		ob := h.outbox
		h.outbox = nil
		h.mu.Unlock()
		s.base.hub.inflight = append(s.base.hub.inflight, ob...)
	}
	return fmt.Sprintf("t=%d;E[%s];A{%s};B{%s}", time.Since(s.rec.epoch).Milliseconds(), strings.Join(s.rec.take(), "|"),
		s.digest(s.ag["A"]), s.digest(s.ag["B"]))
}

func (s *vcSession) findCand(ag *vcAgent, addr int) *vcCand {
	ag.mu.Lock()
	defer ag.mu.Unlock()
	for _, k := range ag.cands {
		if k.addr == addr {
			return k
		}
	}
	return nil
}

func (s *vcSession) exec(t []string) string {
	var ag *vcAgent
	if len(t) > 1 {
		ag = s.ag[t[1]]
	}
	switch t[0] {
	case "cand":
		addr := vAtoi(t[2])
		c, err := vNewCand(1, 0, addr, 2130706431-addr, "-")
		if err != nil {
			return "bad-op cand"
		}
		conn := s.newConn(ag, addr, t[3])
		k := s.findCand(ag, addr)
		k.c, _ = c.(*CandidateHost)
		ag.h.started = true // hub delivery requires it
		s.call(ag, "cand:"+t[2]+":"+t[3], func() error {
			err := ag.h.a.addCandidate(context.Background(), c, conn)
			if err != nil {
				_ = conn.Close() // what gather.go does when addCandidate fails
			}
			return err
		})
	case "remote":
		c, err := vNewCand(1, 0, vAtoi(t[2]), 2130706431-vAtoi(t[2]), "-")
		if err != nil {
			return "bad-op remote"
		}
		s.call(ag, "addremote", func() error { return ag.h.a.AddRemoteCandidate(c) })
	case "start", "dial", "accept":
		other := "B"
		if t[1] == "B" {
			other = "A"
		}
		ru, rp := vUfrag("u"+other+"0"), vPwd("p"+other+"0")
		s.base.pwds["p"+other+"0"] = true
		a := ag.h.a
		switch t[0] {
		case "start":
			s.call(ag, "start", func() error {
				conn, err := a.startConnect(t[2] == "1", ru, rp)
				if err == nil {
					ag.mu.Lock()
					ag.conn = conn
					ag.mu.Unlock()
				}
				return err
			})
		case "dial":
			s.call(ag, "dial", func() error { _, err := a.Dial(context.Background(), ru, rp); return err })
		default:
			s.call(ag, "accept", func() error { _, err := a.Accept(context.Background(), ru, rp); return err })
		}
	case "read":
		s.call(ag, "read", func() error {
			_, err := (&Conn{agent: ag.h.a}).Read(make([]byte, 1500))
			return err
		})
	case "write":
		detail := "nopair"
		if p := ag.h.a.getSelectedPair(); p != nil {
			detail = fmt.Sprint(vAddrID(p.Local.addrPort()))
		}
		n := vAtoi(t[2])
		var sock *vcConn
		if k := s.findCand(ag, vAtoi(detail)); detail != "nopair" && k != nil {
			sock = k.conn
			sock.mu.Lock()
			sock.userW++
			sock.mu.Unlock()
		}
		s.call(ag, "write:"+detail, func() error {
			if sock != nil {
				defer func() { sock.mu.Lock(); sock.userW--; sock.cond.Broadcast(); sock.mu.Unlock() }()
			}
			w, err := (&Conn{agent: ag.h.a}).Write(vPayload(n, false))
			if err == nil && w != n {
				return fmt.Errorf("short write %d of %d without error", w, n)
			}
			return err
		})
	case "await":
		s.call(ag, "await", func() error { return ag.h.a.AwaitConnect(context.Background()) })
	case "api":
		a := ag.h.a
		switch t[2] {
		case "getlocal":
			s.call(ag, "getlocal", func() error { _, err := a.GetLocalCandidates(); return err })
		case "getremote":
			s.call(ag, "getremote", func() error { _, err := a.GetRemoteCandidates(); return err })
		case "restart":
			s.call(ag, "restart", func() error { return a.Restart("", "") })
		case "gather":
			s.call(ag, "gather", func() error { return a.GatherCandidates() })
		case "creds":
			s.call(ag, "creds", func() error { _, _, err := a.GetLocalUserCredentials(); return err })
		case "selected":
			s.call(ag, "selected", func() error { _, err := a.GetSelectedCandidatePair(); return err })
		case "stats":
			s.call(ag, "stats", func() error { _ = a.GetCandidatePairsStats(); return nil })
		default:
			return "bad-op api"
		}
	case "turn":
		if len(t) < 4 {
			return "bad-op turn"
		}
		if ag.turn != "" { // out of context (a shrunk session): no-op
			break
		}
		u := &stun.URI{Host: "10.9.9.9", Port: 3478, Username: "user", Password: "pass"}
		switch t[2] {
		case "udp":
			u.Scheme, u.Proto = stun.SchemeTypeTURN, stun.ProtoTypeUDP
		case "tcp":
			u.Scheme, u.Proto = stun.SchemeTypeTURN, stun.ProtoTypeTCP
		case "tls":
			u.Scheme, u.Proto = stun.SchemeTypeTURNS, stun.ProtoTypeTCP
		case "dtls":
			u.Scheme, u.Proto = stun.SchemeTypeTURNS, stun.ProtoTypeUDP
		default:
			return "bad-op turn"
		}
		types := "hr"
		if len(t) > 4 {
			types = t[4]
		}
		var cts []CandidateType
		for _, l := range types {
			switch l {
			case 'h':
				cts = append(cts, CandidateTypeHost)
			case 's':
				cts = append(cts, CandidateTypeServerReflexive)
			case 'r':
				cts = append(cts, CandidateTypeRelay)
			}
		}
		// (the agent is at rest: same in-package configuration as `a.net` in newAgent)
		ag.turn = t[2] + ":" + t[3]
		ag.net.mu.Lock()
		ag.net.stage = t[3]
		ag.net.mu.Unlock()
		ag.h.a.urls = []*stun.URI{u}
		ag.h.a.candidateTypes = cts
	case "tcpmux":
		if len(t) < 3 {
			return "bad-op tcpmux"
		}
		if ag.mux != nil { // out of context (a shrunk session): no-op, like blockw on an unknown socket
			break
		}
		ag.rbs = vAtoi(t[2])
		ag.lis = &vTcpListener{ch: make(chan net.Conn), closed: make(chan struct{}), addr: &net.TCPAddr{IP: net.IPv4zero, Port: 7000}}
		ag.mux = NewTCPMuxDefault(TCPMuxParams{Listener: ag.lis, ReadBufferSize: ag.rbs})
		// (the agent is at rest: same in-package configuration as `a.net` in newAgent)
		ag.h.a.tcpMux = ag.mux
		ag.h.a.networkTypes = append(append([]NetworkType{}, ag.h.a.networkTypes...), NetworkTypeTCP4)
	case "tcppeer":
		if len(t) < 3 {
			return "bad-op tcppeer"
		}
		if ag.mux == nil { // out of context (a shrunk session dropped `tcpmux`): no-op, never a failure of its own
			break
		}
		i := len(ag.peers)
		c := &vTcpConn{wake: make(chan struct{}),
			local:  &net.TCPAddr{IP: vAddr(0, 16*ag.net.ip).IP, Port: 7000},
			remote: &net.TCPAddr{IP: net.IPv4(192, 0, 2, byte(1+i)), Port: 40000 + i}}
		ag.peers = append(ag.peers, c)
		select {
		case ag.lis.ch <- c:
		case <-ag.lis.closed:
			c.clientClose(true)
		}
		for k := 0; k < vAtoi(t[2]); k++ {
			c.push(vcTCPFrame(ag.h.a.localUfrag))
		}
	case "tcpsend":
		if len(t) < 4 {
			return "bad-op tcpsend"
		}
		if ag.mux == nil || vAtoi(t[2]) >= len(ag.peers) { // out of context: no-op
			break
		}
		for k := 0; k < vAtoi(t[3]); k++ {
			ag.peers[vAtoi(t[2])].push(vcTCPFrame(ag.h.a.localUfrag))
		}
	case "blockw":
		if k := s.findCand(ag, vAtoi(t[2])); k != nil {
			k.conn.mu.Lock()
			k.conn.blockW = t[3] == "1"
			k.conn.mu.Unlock()
		}
	case "passw":
		if k := s.findCand(ag, vAtoi(t[2])); k != nil {
			select {
			case k.conn.pass <- struct{}{}:
			default:
			}
		}
	case "hdl":
		for i, n := range vcStreams {
			if n == t[2] {
				ag.mu.Lock()
				ag.mode[i] = t[3]
				ag.mu.Unlock()
			}
		}
	case "release":
		ag.mu.Lock()
		close(ag.release)
		ag.release = make(chan struct{})
		for i := range ag.mode {
			if ag.mode[i] == "block" {
				ag.mode[i] = "none"
			}
		}
		ag.mu.Unlock()
		s.rec.add("REL:%s", ag.letter)
	case "close":
		ag.closedBy = true
		if s.stuckCloser(ag) {
			break
		}
		for _, g := range t[2:] {
			s.closer(ag, g == "1")
		}
	case "dump": // debugging aid: goroutine stacks at this point of the session
		vcDump("dump")
	case "adv":
		time.Sleep(time.Duration(vAtoi(t[1])) * time.Millisecond)
	case "flush":
		for r := 0; r < vAtoi(t[1]); r++ {
			synctest.Wait()
			for _, l := range []string{"A", "B"} {
				h := s.ag[l].h
				h.mu.Lock()
				ob := h.outbox
				h.outbox = nil
				h.mu.Unlock()
				s.base.hub.inflight = append(s.base.hub.inflight, ob...)
			}
			fl := s.base.hub.inflight
			s.base.hub.inflight = nil
			s.base.nprint = 0
			for _, d := range fl {
				s.base.handOver(d)
			}
		}
	default:
		return "bad-op " + t[0]
	}
	synctest.Wait()
	if t[0] == "write" && ag != nil {
		if p := ag.h.a.getSelectedPair(); p != nil {
			if k := s.findCand(ag, vAddrID(p.Local.addrPort())); k != nil {
				k.conn.mu.Lock()
				if k.conn.userW > 0 && k.conn.nblocked > 0 {
					vcCovAdd("writeparked")
				}
				k.conn.mu.Unlock()
			}
		}
	}
	return s.render()
}

// finish: release handlers, GracefulClose every agent, advance virtual time by the bound; the bubble then ends
// (synctest fails it if any goroutine started inside is still alive).
func (s *vcSession) finish() string {
	for _, l := range []string{"A", "B"} {
		ag := s.ag[l]
		ag.mu.Lock()
		close(ag.release)
		ag.release = make(chan struct{})
		for i := range ag.mode {
			if ag.mode[i] != "gclose" {
				ag.mode[i] = "none"
			}
		}
		ag.mu.Unlock()
		s.rec.add("REL:%s", l)
	}
	synctest.Wait()
	for _, l := range []string{"A", "B"} {
		ag := s.ag[l]
		ag.mu.Lock()
		cands := append([]*vcCand{}, ag.cands...)
		ag.mu.Unlock()
		for _, k := range cands {
			k.conn.giveUp()
		}
	}
	synctest.Wait()
	for _, l := range []string{"A", "B"} {
		if ag := s.ag[l]; !s.stuckCloser(ag) {
			s.closer(ag, true)
		}
	}
	synctest.Wait()
	// the application closes its TCP mux after its agents (the mux outlives them: its goroutines are not the agent's)
	for _, l := range []string{"A", "B"} {
		if ag := s.ag[l]; ag.mux != nil {
			s.call(ag, "muxclose", func() error { return ag.mux.Close() })
		}
	}
	synctest.Wait()
	time.Sleep((vcBoundMs + 1) * time.Millisecond)
	synctest.Wait()
	res := s.render()
	// the session is over and judged: dials that never returned are given up so that the bubble can wind down
	for _, l := range []string{"A", "B"} {
		n := s.ag[l].net
		n.mu.Lock()
		pending := n.ndial > 0
		n.mu.Unlock()
		if pending {
			close(n.dialHold)
			synctest.Wait()
			time.Sleep(time.Millisecond)
			synctest.Wait()
		}
	}
	return res
}


// ---- modelling fact R1, checked on the real runtime ----

// vcR1: a task is blocked in a socket write; two submitters are parked in Run behind it; Close closes `done`,
// aborts the write; the loop comes back to its select with `done` closed AND (had they not been woken) two
// senders.  R1 says neither parked task is ever run.  Returns how many of n trials ran a parked task.
type vcR1Conn struct {
	closed chan struct{}
	once   sync.Once
}

func (b *vcR1Conn) ReadFrom([]byte) (int, net.Addr, error) { <-b.closed; return 0, nil, io.EOF }
func (b *vcR1Conn) WriteTo([]byte, net.Addr) (int, error)  { <-b.closed; return 0, io.ErrClosedPipe }
func (b *vcR1Conn) Close() error                           { b.once.Do(func() { close(b.closed) }); return nil }
func (b *vcR1Conn) LocalAddr() net.Addr                    { return &net.UDPAddr{IP: net.IPv4(192, 0, 2, 1), Port: 1} }
func (b *vcR1Conn) SetDeadline(time.Time) error            { return nil }
func (b *vcR1Conn) SetReadDeadline(time.Time) error        { return nil }
func (b *vcR1Conn) SetWriteDeadline(time.Time) error       { return nil }

func vcR1(n int) string {
	ran, bad := 0, 0
	for i := 0; i < n; i++ {
		ok := vT.Run("r1", func(t *testing.T) {
			defer func() {
				if p := recover(); p != nil {
					bad++
				}
			}()
			synctest.Test(t, func(t *testing.T) {
				a, err := NewAgent(&AgentConfig{Net: vNoNet{}, MulticastDNSMode: MulticastDNSModeDisabled})
				if err != nil {
					bad++
					return
				}
				c0, _ := NewCandidateHost(&CandidateHostConfig{Network: "udp", Address: "192.0.2.1", Port: 1, Component: 1})
				rem, _ := NewCandidateHost(&CandidateHostConfig{Network: "udp", Address: "192.0.2.2", Port: 2, Component: 1})
				if err := a.addCandidate(context.Background(), c0, &vcR1Conn{closed: make(chan struct{})}); err != nil {
					bad++
					return
				}
				go func() { _ = a.loop.Run(a.loop, func(context.Context) { _, _ = c0.writeTo([]byte{1}, rem) }) }()
				synctest.Wait()
				for k := 0; k < 2; k++ {
					go func() { _ = a.loop.Run(a.loop, func(context.Context) { ran++ }) }()
				}
				synctest.Wait()
				_ = a.Close()
			})
		})
		if !ok {
			bad++
		}
	}
	return fmt.Sprintf("r1:ran=%d:bad=%d:of=%d", ran, bad, n)
}

// ---- session plumbing (bubble root fed through a channel created outside the bubble) ----

var (
	vcIn   chan vReq
	vcDone chan string
)

func vcRunSession(t *testing.T, first chan string) {
	synctest.Test(t, func(t *testing.T) {
		base := &vSession{hub: &vHub{eps: map[string][]*vEP{}, blocked: map[[2]int]bool{}}, ag: map[string]*vAgentH{},
			epoch: time.Now(), pwds: map[string]bool{"": true}}
		vAddrOwner = map[string]*vAgentH{}
		s := &vcSession{base: base, rec: &vcRec{epoch: base.epoch}, ag: map[string]*vcAgent{}}
		for i, l := range []string{"A", "B"} {
			ag, err := s.newAgent(l, 1+10*i)
			if err != nil {
				first <- "err:new:" + strings.ReplaceAll(err.Error(), " ", "_")
				return
			}
			s.ag[l] = ag
			base.ag[l] = ag.h
		}
		synctest.Wait()
		first <- s.render()
		for req := range vcIn {
			if req.toks[0] == "end" {
				req.resp <- s.finish()
				return
			}
			res := func() (res string) {
				defer func() {
					if p := recover(); p != nil {
						res = "PANIC " + strings.NewReplacer("\t", " ", "\n", " ").Replace(fmt.Sprint(p))
					}
				}()
				return s.exec(req.toks)
			}()
			req.resp <- res
		}
	})
}

func vcDump(tag string) {
	buf := make([]byte, 1<<20)
	n := runtime.Stack(buf, true)
	if p := os.Getenv("VERIF_OUT"); p != "" {
		_ = os.WriteFile(p+"."+tag+".goroutines.txt", buf[:n], 0o644)
	}
}

// vcSend hands one op to the bubble; a wall-clock watchdog catches what synctest cannot see (a goroutine
// spinning or blocked on a sync.Mutex is not "durably blocked", so synctest.Wait never returns).
// vcAlarms counts watchdog alarms / dead sessions of this run: the first alarm waits 20 s of real time, later ones
// 3 s (the violation is established), and the generator stops after three.
var vcAlarms int

// vcCov: coverage counters of the run (op `coverage`).
var (
	vcCovMu sync.Mutex
	vcCov   = map[string]int{}
)

func vcCovAdd(k string) { vcCovMu.Lock(); vcCov[k]++; vcCovMu.Unlock() }

// vcSkipped counts closers not started because an earlier one hangs (see stuckCloser).
var vcSkipped int

func vcSend(toks []string) (res string) {
	resp := make(chan string, 1)
	d := 20 * time.Second
	if vcAlarms > 0 {
		d = 3 * time.Second
	}
	wd := time.NewTimer(d)
	defer func() {
		if strings.HasPrefix(res, "WATCHDOG") || strings.HasPrefix(res, "SESSION-DIED") {
			vcAlarms++
		}
	}()
	defer wd.Stop()
	select {
	case vcIn <- vReq{toks, resp}:
		select {
		case r := <-resp:
			return r
		case r := <-vcDone:
			// the bubble may have ended right after answering (op "end"): the answer wins
			select {
			case x := <-resp:
				vcDone <- r
				return x
			default:
			}
			vcIn = nil
			return "SESSION-DIED " + r
		case <-wd.C:
			vcDump("watchdog")
			vcIn = nil
			return fmt.Sprintf("WATCHDOG no quiescence within %d s of real time (mutex deadlock or livelock); goroutines dumped", int(d.Seconds()))
		}
	case r := <-vcDone:
		vcIn = nil
		return "SESSION-DIED " + r
	case <-wd.C:
		vcDump("watchdog")
		vcIn = nil
		return "WATCHDOG session does not accept operations"
	}
}

func vcExec(o *vOut, t []string) string {
	if len(t) < 2 {
		return "bad-op"
	}
	if t[1] == "coverage" {
		if vcIn != nil {
			vcEnd()
		}
		vcCovMu.Lock()
		defer vcCovMu.Unlock()
		return fmt.Sprintf("cov:connected=%d;writeparked=%d;tcpfull=%d;relaystalled=%d", vcCov["connected"], vcCov["writeparked"], vcCov["tcpfull"], vcCov["relaystalled"])
	}
	if t[1] == "r1" && len(t) > 2 {
		if vcIn != nil {
			vcEnd()
		}
		return vcR1(vAtoi(t[2]))
	}
	if t[1] == "new" {
		if vcIn != nil {
			vcEnd()
		}
		vcIn = make(chan vReq)
		vcDone = make(chan string, 1)
		first := make(chan string, 1)
		done := vcDone
		go func() {
			res := "ok"
			ok := vT.Run("close-session", func(t *testing.T) {
				// synctest reports "bubble ended with live goroutines" / "all goroutines blocked" by panicking
				// in this goroutine: turn it into an output line instead of killing the run
				defer func() {
					if p := recover(); p != nil {
						msg := strings.NewReplacer("\t", " ", "\n", " ").Replace(fmt.Sprint(p))
						if strings.Contains(msg, "main bubble goroutine has exited") {
							res = "LEAK " + msg
						} else {
							res = "DEADLOCK " + msg
						}
						vcDump("leak")
					}
				}()
				vcRunSession(t, first)
			})
			if !ok && res == "ok" {
				res = "FAILED"
			}
			select {
			case first <- "err:session-failed " + res:
			default:
			}
			done <- res
		}()
		o.stat("sessions")
		return <-first
	}
	if vcIn == nil {
		return "bad-op no session"
	}
	if t[1] == "end" {
		sk := vcSkipped
		r := vcEnd()
		if vcSkipped > sk {
			o.stat("close.skipped-closer")
		}
		return r
	}
	o.stat("op." + t[1])
	sk := vcSkipped
	res := vcSend(t[1:])
	if vcSkipped > sk {
		o.stat("close.skipped-closer")
	}
	return res
}

func vcEnd() string {
	if vcIn == nil {
		return "bad-op no session"
	}
	r := vcSend([]string{"end"})
	if vcIn == nil {
		return r
	}
	close(vcIn)
	vcIn = nil
	select {
	case c := <-vcDone:
		return r + ";census=" + c
	case <-time.After(20 * time.Second):
		vcDump("watchdog-end")
		return r + ";census=WATCHDOG bubble did not end within 20 s of real time"
	}
}
