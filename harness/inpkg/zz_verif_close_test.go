//go:build verif && go1.25

package ice

// Component "close" (property C08): REAL agents under testing/synctest with scripted blocking sockets,
// parked API goroutines, blocking / re-entrant / closing handlers and gathering, with Close/GracefulClose
// injected at every position of generated operation sequences.  See DESIGN.md §5 C08 and notes/C08.md.
//
// ops (tokens after "close"):
//   new <id>                          two agents A, B over the hub (A with a small fake transport.Net)
//   cand <A|B> <addr> <mode>          addCandidate with a scripted socket; mode letters: n plain, w writes block, e Close fails
//   remote <A|B> <addr>               AddRemoteCandidate(host candidate at addr)
//   start <A|B> <ctl>                 startConnect          dial <A|B> / accept <A|B>: Dial / Accept (blocking)
//   read <A|B>  write <A|B> <len>  await <A|B>              blocking API calls, each in its own goroutine
//   api <A|B> <getlocal|getremote|restart|gather|creds|stats|selected>
//   blockw <A|B> <addr> <0|1>         make the socket's writes block / pass again
//   passw <A|B> <addr>                environment lets ONE blocked write on that socket complete
//   hdl <A|B> <cs|cand|pair> <none|block|getlocal|addremote|restart|close|gclose>   behaviour of the handler from now on
//   release <A|B>                     release handlers blocked in mode "block"
//   close <A|B> <0|1> [<0|1>]         Close / GracefulClose from a new goroutine (two values: two concurrent closers)
//   adv <ms>   flush <rounds>         virtual time; deliver all in-flight datagrams
//   end                               release handlers, GracefulClose every agent, advance by the bound, census
//   r1 <n>                            (outside sessions) n trials of the scenario behind modelling fact R1
// output of every op: t=<ms>;E[<events>];A{<digest>};B{<digest>}   (see vcSession.digest / vcRec)
// events: C<id>:<agent>:<kind>[:<detail>]  R<id>:<err>  H<agent><stream>:<ev>:enter|exit  all suffixed @<ms>

import (
	"context"
	"errors"
	"fmt"
	"io"
	"net"
	"os"
	"runtime"
	"strings"
	"sync"
	"testing"
	"testing/synctest"
	"time"

	"github.com/pion/transport/v4"
)

func init() { vComponents["close"] = &vComp{gen: vcGen, exec: vcExec} }

// virtual-time bound on every call (see notes/C08.md "bound"): no timer lies on the Close path of a host-only
// agent; the longest timer a Close can wait for in any configuration is the STUN gather timeout (5 s).
const vcBoundMs = 10000

// ---- recorder ----

type vcRec struct {
	mu    sync.Mutex
	ev    []string
	epoch time.Time
	nid   int
}

func (r *vcRec) add(format string, a ...any) {
	r.mu.Lock()
	r.ev = append(r.ev, fmt.Sprintf(format, a...)+fmt.Sprintf("@%d", time.Since(r.epoch).Milliseconds()))
	r.mu.Unlock()
}
func (r *vcRec) id() int { r.mu.Lock(); r.nid++; n := r.nid; r.mu.Unlock(); return n }
func (r *vcRec) take() []string {
	r.mu.Lock()
	e := r.ev
	r.ev = nil
	r.mu.Unlock()
	return e
}

func vcErr(err error) string {
	switch {
	case err == nil:
		return "ok"
	case errors.Is(err, ErrClosed):
		return "closed"
	case errors.Is(err, io.ErrClosedPipe), errors.Is(err, io.EOF), errors.Is(err, net.ErrClosed), errors.Is(err, os.ErrDeadlineExceeded):
		return "io"
	case errors.Is(err, ErrCanceledByCaller), errors.Is(err, context.Canceled):
		return "canceled"
	case errors.Is(err, ErrMultipleStart):
		return "multiplestart"
	case errors.Is(err, ErrNoCandidatePairs):
		return "nopairs"
	case errors.Is(err, ErrMultipleGatherAttempted):
		return "multiplegather"
	}
	return "other:" + strings.NewReplacer(" ", "_", ";", ",", "|", "/", "[", "(", "]", ")", "@", "_").Replace(err.Error())
}

// ---- scripted socket ----

// vcConn is a hub endpoint whose WriteTo can block until the deadline is set to now / the write is let
// through by the environment / the socket is closed, and whose Close can fail.
type vcConn struct {
	*vEP
	mu       sync.Mutex
	blockW   bool
	closeErr bool
	rel      chan struct{} // closed once a deadline in the past has been set
	relOnce  sync.Once
	pass     chan struct{} // environment: one blocked write may complete
	nblocked int
	rec      *vcRec
	name     string
}

func (c *vcConn) WriteTo(b []byte, a net.Addr) (int, error) {
	c.mu.Lock()
	blk := c.blockW
	if blk {
		c.nblocked++
	}
	c.mu.Unlock()
	if blk {
		defer func() { c.mu.Lock(); c.nblocked--; c.mu.Unlock() }()
		select {
		case <-c.closed:
			return 0, io.ErrClosedPipe
		case <-c.rel:
			return 0, os.ErrDeadlineExceeded
		case <-c.pass:
		}
	}
	select {
	case <-c.rel:
		return 0, os.ErrDeadlineExceeded
	default:
	}
	return c.vEP.WriteTo(b, a)
}

func (c *vcConn) ReadFrom(b []byte) (int, net.Addr, error) {
	select {
	case d := <-c.ch:
		return copy(b, d.data), d.from, nil
	case <-c.closed:
		return 0, nil, io.EOF
	case <-c.rel:
		return 0, nil, os.ErrDeadlineExceeded
	}
}

func (c *vcConn) setDL(t time.Time) {
	if !t.IsZero() && !t.After(time.Now()) {
		c.relOnce.Do(func() { close(c.rel) })
	}
}
func (c *vcConn) SetDeadline(t time.Time) error      { c.setDL(t); return nil }
func (c *vcConn) SetReadDeadline(t time.Time) error  { c.setDL(t); return nil }
func (c *vcConn) SetWriteDeadline(t time.Time) error { c.setDL(t); return nil }
func (c *vcConn) Close() error {
	_ = c.vEP.Close()
	if c.closeErr {
		return errors.New("scripted close failure")
	}
	return nil
}

// the extra methods of transport.UDPConn (host gathering listens through the fake Net)
func (c *vcConn) RemoteAddr() net.Addr                 { return nil }
func (c *vcConn) SetReadBuffer(int) error              { return nil }
func (c *vcConn) SetWriteBuffer(int) error             { return nil }
func (c *vcConn) Read(b []byte) (int, error)           { n, _, err := c.ReadFrom(b); return n, err }
func (c *vcConn) Write(b []byte) (int, error)          { return 0, errors.New("not connected") }
func (c *vcConn) ReadFromUDP(b []byte) (int, *net.UDPAddr, error) {
	n, a, err := c.ReadFrom(b)
	ua, _ := a.(*net.UDPAddr)
	return n, ua, err
}
func (c *vcConn) ReadMsgUDP(b, _ []byte) (int, int, int, *net.UDPAddr, error) {
	n, ua, err := c.ReadFromUDP(b)
	return n, 0, 0, ua, err
}
func (c *vcConn) WriteToUDP(b []byte, a *net.UDPAddr) (int, error) { return c.WriteTo(b, a) }
func (c *vcConn) WriteMsgUDP(b, _ []byte, a *net.UDPAddr) (int, int, error) {
	n, err := c.WriteTo(b, a)
	return n, 0, err
}

// vcNet: one interface "eth0" with one IPv4 address; ListenUDP hands out scripted sockets on the hub.
type vcNet struct {
	transport.Net
	s     *vcSession
	owner *vcAgent
	ip    int
	nport int
}

func (n *vcNet) Interfaces() ([]*transport.Interface, error) {
	ifc := transport.NewInterface(net.Interface{Index: 1, MTU: 1500, Name: "eth0", Flags: net.FlagUp})
	ifc.AddAddress(&net.IPNet{IP: vAddr(0, 16*n.ip).IP, Mask: net.CIDRMask(24, 32)})
	return []*transport.Interface{ifc}, nil
}
func (n *vcNet) ListenUDP(network string, la *net.UDPAddr) (transport.UDPConn, error) {
	n.nport++
	return n.s.newConn(n.owner, 16*n.ip+8+n.nport%8, "n"), nil
}
func (n *vcNet) ResolveUDPAddr(network, address string) (*net.UDPAddr, error) {
	return net.ResolveUDPAddr(network, address)
}

// ---- agents ----

type vcCand struct {
	addr int
	c    *CandidateHost
	conn *vcConn
}

type vcAgent struct {
	h        *vAgentH
	letter   string
	mu       sync.Mutex
	mode     [3]string     // handler behaviour per stream (cs, cand, pair)
	release  chan struct{} // closed to release handlers in mode "block"
	cands    []*vcCand
	conn     *Conn
	closedBy bool // the test has called Close/GracefulClose on it
	net      *vcNet
}

type vcSession struct {
	base *vSession
	rec  *vcRec
	ag   map[string]*vcAgent
	wg   sync.WaitGroup
}

func (s *vcSession) newConn(owner *vcAgent, addr int, mode string) *vcConn {
	ua := vAddr(0, addr)
	ep := &vEP{h: s.base.hub, owner: owner.h, addr: ua, ch: make(chan vDgram, 4096), closed: make(chan struct{})}
	c := &vcConn{vEP: ep, blockW: strings.Contains(mode, "w"), closeErr: strings.Contains(mode, "e"),
		rel: make(chan struct{}), pass: make(chan struct{}), rec: s.rec, name: fmt.Sprint(addr)}
	s.base.hub.mu.Lock()
	s.base.hub.eps[ua.String()] = ep
	s.base.hub.mu.Unlock()
	vAddrOwner[ua.String()] = owner.h
	owner.mu.Lock()
	owner.cands = append(owner.cands, &vcCand{addr: addr, conn: c})
	owner.mu.Unlock()
	return c
}

var vcStreams = []string{"cs", "cand", "pair"}

func (s *vcSession) handler(ag *vcAgent, stream int, ev string) {
	ag.mu.Lock()
	mode, rel := ag.mode[stream], ag.release
	ag.mu.Unlock()
	s.rec.add("H%s%d:%s:enter:%s", ag.letter, stream, ev, mode)
	a := ag.h.a
	hcall := func(kind string, f func() error) {
		id := s.rec.id()
		s.rec.add("C%d:%s:h%s", id, ag.letter, kind)
		err := f()
		s.rec.add("R%d:%s", id, vcErr(err))
	}
	switch mode {
	case "block":
		<-rel
	case "getlocal":
		hcall("getlocal", func() error { _, err := a.GetLocalCandidates(); return err })
	case "addremote":
		hcall("addremote", func() error {
			c, err := vNewCand(1, 0, 16*29+stream, 100, "-")
			if err != nil {
				return err
			}
			return a.AddRemoteCandidate(c)
		})
	case "restart":
		hcall("restart", func() error { return a.Restart("", "") })
	case "close":
		hcall("close", func() error { return a.Close() })
	case "gclose": // contract violation; used only by the deadlock-witness session
		hcall("gclose", func() error { return a.GracefulClose() })
	}
	s.rec.add("H%s%d:%s:exit", ag.letter, stream, ev)
}

func (s *vcSession) newAgent(letter string, ip int) (*vcAgent, error) {
	ag := &vcAgent{letter: letter, release: make(chan struct{})}
	for i := range ag.mode {
		ag.mode[i] = "none"
	}
	h, err := s.base.newAgent(letter, fmt.Sprintf("tb=%d,u=u%s0,p=p%s0,ka=300,ci=100,disc=2000,fail=4000", ip, letter, letter))
	if err != nil {
		return nil, err
	}
	ag.h = h
	ag.net = &vcNet{s: s, owner: ag, ip: ip}
	h.a.net = ag.net // gathering goes through the fake Net (set before any gather starts)
	a := h.a
	_ = a.OnConnectionStateChange(func(st ConnectionState) { s.handler(ag, 0, st.String()) })
	_ = a.OnCandidate(func(c Candidate) {
		ev := "nil"
		if c != nil {
			ev = "c"
		}
		s.handler(ag, 1, ev)
	})
	_ = a.OnSelectedCandidatePairChange(func(_, _ Candidate) { s.handler(ag, 2, "pair") })
	return ag, nil
}

// call runs f in its own goroutine and records call / return.
func (s *vcSession) call(ag *vcAgent, kind string, f func() error) {
	id := s.rec.id()
	s.rec.add("C%d:%s:%s", id, ag.letter, kind)
	s.wg.Add(1)
	go func() {
		defer s.wg.Done()
		err := f()
		s.rec.add("R%d:%s", id, vcErr(err))
	}()
}

func vcClosed(ch <-chan struct{}) int {
	if ch == nil {
		return 0
	}
	select {
	case <-ch:
		return 1
	default:
		return 0
	}
}

// digest: the shutdown-relevant state of the real agent at a quiescent point (every goroutine of the bubble
// is durably blocked, so the plain reads below do not race with anything).
func (s *vcSession) digest(ag *vcAgent) string {
	a := ag.h.a
	var ks []string
	ag.mu.Lock()
	cands := append([]*vcCand{}, ag.cands...)
	ag.mu.Unlock()
	for _, k := range cands {
		if k.c == nil { // a socket handed out by the fake Net: find the gathered host candidate that owns it
			for _, cs := range a.localCandidates {
				for _, c := range cs {
					if hc, ok := c.(*CandidateHost); ok && hc.conn == net.PacketConn(k.conn) {
						k.c = hc
					}
				}
			}
		}
		st := "--"
		if k.c != nil && k.c.closeCh != nil {
			st = fmt.Sprintf("%d%d", vcClosed(k.c.closeCh), vcClosed(k.c.closedCh))
		}
		k.conn.mu.Lock()
		nb := k.conn.nblocked
		k.conn.mu.Unlock()
		ks = append(ks, fmt.Sprintf("%d:%s:s%d:b%d", k.addr, st, vcClosed(k.conn.closed), nb))
	}
	var ns []string
	for _, h := range []*handlerNotifier{a.connectionStateNotifier, a.candidateNotifier, a.selectedCandidatePairNotifier} {
		h.Lock()
		run := 0
		if h.runningConnectionStates || h.runningCandidates || h.runningCandidatePairs {
			run = 1
		}
		ns = append(ns, fmt.Sprintf("%d%d%d", vcClosed(h.done), run, len(h.connectionStates)+len(h.candidates)+len(h.selectedCandidatePairs)))
		h.Unlock()
	}
	nl, nr := 0, 0
	for _, cs := range a.localCandidates {
		nl += len(cs)
	}
	for _, cs := range a.remoteCandidates {
		nr += len(cs)
	}
	x := 0
	if a.connectionState == ConnectionStateClosed {
		x = 1
	}
	return fmt.Sprintf("d=%d;x=%d;K=%s;N=%s;nl=%d;nr=%d", vcClosed(a.loop.Done()), x, strings.Join(ks, ","), strings.Join(ns, ","), nl, nr)
}

func (s *vcSession) render() string {
	// move emitted datagrams to the hub
	for _, l := range []string{"A", "B"} {
		h := s.ag[l].h
		h.mu.Lock()
		ob := h.outbox
		h.outbox = nil
		h.mu.Unlock()
		s.base.hub.inflight = append(s.base.hub.inflight, ob...)
	}
	return fmt.Sprintf("t=%d;E[%s];A{%s};B{%s}", time.Since(s.rec.epoch).Milliseconds(), strings.Join(s.rec.take(), "|"),
		s.digest(s.ag["A"]), s.digest(s.ag["B"]))
}

func (s *vcSession) findCand(ag *vcAgent, addr int) *vcCand {
	ag.mu.Lock()
	defer ag.mu.Unlock()
	for _, k := range ag.cands {
		if k.addr == addr {
			return k
		}
	}
	return nil
}

func (s *vcSession) exec(t []string) string {
	var ag *vcAgent
	if len(t) > 1 {
		ag = s.ag[t[1]]
	}
	switch t[0] {
	case "cand":
		addr := vAtoi(t[2])
		c, err := vNewCand(1, 0, addr, 2130706431-addr, "-")
		if err != nil {
			return "bad-op cand"
		}
		conn := s.newConn(ag, addr, t[3])
		k := s.findCand(ag, addr)
		k.c, _ = c.(*CandidateHost)
		ag.h.started = true // hub delivery requires it
		s.call(ag, "cand:"+t[2]+":"+t[3], func() error {
			err := ag.h.a.addCandidate(context.Background(), c, conn)
			if err != nil {
				_ = conn.Close() // what gather.go does when addCandidate fails
			}
			return err
		})
	case "remote":
		c, err := vNewCand(1, 0, vAtoi(t[2]), 2130706431-vAtoi(t[2]), "-")
		if err != nil {
			return "bad-op remote"
		}
		s.call(ag, "addremote", func() error { return ag.h.a.AddRemoteCandidate(c) })
	case "start", "dial", "accept":
		other := "B"
		if t[1] == "B" {
			other = "A"
		}
		ru, rp := vUfrag("u"+other+"0"), vPwd("p"+other+"0")
		s.base.pwds["p"+other+"0"] = true
		a := ag.h.a
		switch t[0] {
		case "start":
			s.call(ag, "start", func() error {
				conn, err := a.startConnect(t[2] == "1", ru, rp)
				if err == nil {
					ag.mu.Lock()
					ag.conn = conn
					ag.mu.Unlock()
				}
				return err
			})
		case "dial":
			s.call(ag, "dial", func() error { _, err := a.Dial(context.Background(), ru, rp); return err })
		default:
			s.call(ag, "accept", func() error { _, err := a.Accept(context.Background(), ru, rp); return err })
		}
	case "read":
		s.call(ag, "read", func() error {
			_, err := (&Conn{agent: ag.h.a}).Read(make([]byte, 1500))
			return err
		})
	case "write":
		detail := "nopair"
		if p := ag.h.a.getSelectedPair(); p != nil {
			detail = fmt.Sprint(vAddrID(p.Local.addrPort()))
		}
		n := vAtoi(t[2])
		s.call(ag, "write:"+detail, func() error {
			w, err := (&Conn{agent: ag.h.a}).Write(vPayload(n, false))
			if err == nil && w != n {
				return fmt.Errorf("short write %d of %d without error", w, n)
			}
			return err
		})
	case "await":
		s.call(ag, "await", func() error { return ag.h.a.AwaitConnect(context.Background()) })
	case "api":
		a := ag.h.a
		switch t[2] {
		case "getlocal":
			s.call(ag, "getlocal", func() error { _, err := a.GetLocalCandidates(); return err })
		case "getremote":
			s.call(ag, "getremote", func() error { _, err := a.GetRemoteCandidates(); return err })
		case "restart":
			s.call(ag, "restart", func() error { return a.Restart("", "") })
		case "gather":
			s.call(ag, "gather", func() error { return a.GatherCandidates() })
		case "creds":
			s.call(ag, "creds", func() error { _, _, err := a.GetLocalUserCredentials(); return err })
		case "selected":
			s.call(ag, "selected", func() error { _, err := a.GetSelectedCandidatePair(); return err })
		case "stats":
			s.call(ag, "stats", func() error { _ = a.GetCandidatePairsStats(); return nil })
		default:
			return "bad-op api"
		}
	case "blockw":
		if k := s.findCand(ag, vAtoi(t[2])); k != nil {
			k.conn.mu.Lock()
			k.conn.blockW = t[3] == "1"
			k.conn.mu.Unlock()
		}
	case "passw":
		if k := s.findCand(ag, vAtoi(t[2])); k != nil {
			select {
			case k.conn.pass <- struct{}{}:
			default:
			}
		}
	case "hdl":
		for i, n := range vcStreams {
			if n == t[2] {
				ag.mu.Lock()
				ag.mode[i] = t[3]
				ag.mu.Unlock()
			}
		}
	case "release":
		ag.mu.Lock()
		close(ag.release)
		ag.release = make(chan struct{})
		for i := range ag.mode {
			if ag.mode[i] == "block" {
				ag.mode[i] = "none"
			}
		}
		ag.mu.Unlock()
		s.rec.add("REL:%s", ag.letter)
	case "close":
		ag.closedBy = true
		for _, g := range t[2:] {
			if g == "1" {
				s.call(ag, "gclose", func() error { return ag.h.a.GracefulClose() })
			} else {
				s.call(ag, "close", func() error { return ag.h.a.Close() })
			}
		}
	case "dump": // debugging aid: goroutine stacks at this point of the session
		vcDump("dump")
	case "adv":
		time.Sleep(time.Duration(vAtoi(t[1])) * time.Millisecond)
	case "flush":
		for r := 0; r < vAtoi(t[1]); r++ {
			synctest.Wait()
			for _, l := range []string{"A", "B"} {
				h := s.ag[l].h
				h.mu.Lock()
				ob := h.outbox
				h.outbox = nil
				h.mu.Unlock()
				s.base.hub.inflight = append(s.base.hub.inflight, ob...)
			}
			fl := s.base.hub.inflight
			s.base.hub.inflight = nil
			s.base.nprint = 0
			for _, d := range fl {
				s.base.handOver(d)
			}
		}
	default:
		return "bad-op " + t[0]
	}
	synctest.Wait()
	return s.render()
}

// finish: release handlers, GracefulClose every agent, advance virtual time by the bound; the bubble then ends
// (synctest fails it if any goroutine started inside is still alive).
func (s *vcSession) finish() string {
	for _, l := range []string{"A", "B"} {
		ag := s.ag[l]
		ag.mu.Lock()
		close(ag.release)
		ag.release = make(chan struct{})
		for i := range ag.mode {
			if ag.mode[i] != "gclose" {
				ag.mode[i] = "none"
			}
		}
		ag.mu.Unlock()
		s.rec.add("REL:%s", l)
	}
	synctest.Wait()
	for _, l := range []string{"A", "B"} {
		ag := s.ag[l]
		s.call(ag, "gclose", func() error { return ag.h.a.GracefulClose() })
	}
	synctest.Wait()
	time.Sleep((vcBoundMs + 1) * time.Millisecond)
	synctest.Wait()
	return s.render()
}


// ---- modelling fact R1, checked on the real runtime ----

// vcR1: a task is blocked in a socket write; two submitters are parked in Run behind it; Close closes `done`,
// aborts the write; the loop comes back to its select with `done` closed AND (had they not been woken) two
// senders.  R1 says neither parked task is ever run.  Returns how many of n trials ran a parked task.
type vcR1Conn struct {
	closed chan struct{}
	once   sync.Once
}

func (b *vcR1Conn) ReadFrom([]byte) (int, net.Addr, error) { <-b.closed; return 0, nil, io.EOF }
func (b *vcR1Conn) WriteTo([]byte, net.Addr) (int, error)  { <-b.closed; return 0, io.ErrClosedPipe }
func (b *vcR1Conn) Close() error                           { b.once.Do(func() { close(b.closed) }); return nil }
func (b *vcR1Conn) LocalAddr() net.Addr                    { return &net.UDPAddr{IP: net.IPv4(192, 0, 2, 1), Port: 1} }
func (b *vcR1Conn) SetDeadline(time.Time) error            { return nil }
func (b *vcR1Conn) SetReadDeadline(time.Time) error        { return nil }
func (b *vcR1Conn) SetWriteDeadline(time.Time) error       { return nil }

func vcR1(n int) string {
	ran, bad := 0, 0
	for i := 0; i < n; i++ {
		ok := vT.Run("r1", func(t *testing.T) {
			defer func() {
				if p := recover(); p != nil {
					bad++
				}
			}()
			synctest.Test(t, func(t *testing.T) {
				a, err := NewAgent(&AgentConfig{Net: vNoNet{}, MulticastDNSMode: MulticastDNSModeDisabled})
				if err != nil {
					bad++
					return
				}
				c0, _ := NewCandidateHost(&CandidateHostConfig{Network: "udp", Address: "192.0.2.1", Port: 1, Component: 1})
				rem, _ := NewCandidateHost(&CandidateHostConfig{Network: "udp", Address: "192.0.2.2", Port: 2, Component: 1})
				if err := a.addCandidate(context.Background(), c0, &vcR1Conn{closed: make(chan struct{})}); err != nil {
					bad++
					return
				}
				go func() { _ = a.loop.Run(a.loop, func(context.Context) { _, _ = c0.writeTo([]byte{1}, rem) }) }()
				synctest.Wait()
				for k := 0; k < 2; k++ {
					go func() { _ = a.loop.Run(a.loop, func(context.Context) { ran++ }) }()
				}
				synctest.Wait()
				_ = a.Close()
			})
		})
		if !ok {
			bad++
		}
	}
	return fmt.Sprintf("r1:ran=%d:bad=%d:of=%d", ran, bad, n)
}

// ---- session plumbing (bubble root fed through a channel created outside the bubble) ----

var (
	vcIn   chan vReq
	vcDone chan string
)

func vcRunSession(t *testing.T, first chan string) {
	synctest.Test(t, func(t *testing.T) {
		base := &vSession{hub: &vHub{eps: map[string]*vEP{}, blocked: map[[2]int]bool{}}, ag: map[string]*vAgentH{},
			epoch: time.Now(), pwds: map[string]bool{"": true}}
		vAddrOwner = map[string]*vAgentH{}
		s := &vcSession{base: base, rec: &vcRec{epoch: base.epoch}, ag: map[string]*vcAgent{}}
		for i, l := range []string{"A", "B"} {
			ag, err := s.newAgent(l, 1+10*i)
			if err != nil {
				first <- "err:new:" + strings.ReplaceAll(err.Error(), " ", "_")
				return
			}
			s.ag[l] = ag
			base.ag[l] = ag.h
		}
		synctest.Wait()
		first <- s.render()
		for req := range vcIn {
			if req.toks[0] == "end" {
				req.resp <- s.finish()
				return
			}
			res := func() (res string) {
				defer func() {
					if p := recover(); p != nil {
						res = "PANIC " + strings.NewReplacer("\t", " ", "\n", " ").Replace(fmt.Sprint(p))
					}
				}()
				return s.exec(req.toks)
			}()
			req.resp <- res
		}
	})
}

func vcDump(tag string) {
	buf := make([]byte, 1<<20)
	n := runtime.Stack(buf, true)
	if p := os.Getenv("VERIF_OUT"); p != "" {
		_ = os.WriteFile(p+"."+tag+".goroutines.txt", buf[:n], 0o644)
	}
}

// vcSend hands one op to the bubble; a wall-clock watchdog catches what synctest cannot see (a goroutine
// spinning or blocked on a sync.Mutex is not "durably blocked", so synctest.Wait never returns).
func vcSend(toks []string) string {
	resp := make(chan string, 1)
	wd := time.NewTimer(20 * time.Second)
	defer wd.Stop()
	select {
	case vcIn <- vReq{toks, resp}:
		select {
		case r := <-resp:
			return r
		case r := <-vcDone:
			// the bubble may have ended right after answering (op "end"): the answer wins
			select {
			case x := <-resp:
				vcDone <- r
				return x
			default:
			}
			vcIn = nil
			return "SESSION-DIED " + r
		case <-wd.C:
			vcDump("watchdog")
			vcIn = nil
			return "WATCHDOG no quiescence within 20 s of real time (mutex deadlock or livelock); goroutines dumped"
		}
	case r := <-vcDone:
		vcIn = nil
		return "SESSION-DIED " + r
	case <-wd.C:
		vcDump("watchdog")
		vcIn = nil
		return "WATCHDOG session does not accept operations"
	}
}

func vcExec(o *vOut, t []string) string {
	if len(t) < 2 {
		return "bad-op"
	}
	if t[1] == "r1" && len(t) > 2 {
		if vcIn != nil {
			vcEnd()
		}
		return vcR1(vAtoi(t[2]))
	}
	if t[1] == "new" {
		if vcIn != nil {
			vcEnd()
		}
		vcIn = make(chan vReq)
		vcDone = make(chan string, 1)
		first := make(chan string, 1)
		done := vcDone
		go func() {
			res := "ok"
			ok := vT.Run("close-session", func(t *testing.T) {
				// synctest reports "bubble ended with live goroutines" / "all goroutines blocked" by panicking
				// in this goroutine: turn it into an output line instead of killing the run
				defer func() {
					if p := recover(); p != nil {
						msg := strings.NewReplacer("\t", " ", "\n", " ").Replace(fmt.Sprint(p))
						if strings.Contains(msg, "main bubble goroutine has exited") {
							res = "LEAK " + msg
						} else {
							res = "DEADLOCK " + msg
						}
						vcDump("leak")
					}
				}()
				vcRunSession(t, first)
			})
			if !ok && res == "ok" {
				res = "FAILED"
			}
			select {
			case first <- "err:session-failed " + res:
			default:
			}
			done <- res
		}()
		o.stat("sessions")
		return <-first
	}
	if vcIn == nil {
		return "bad-op no session"
	}
	if t[1] == "end" {
		return vcEnd()
	}
	o.stat("op." + t[1])
	return vcSend(t[1:])
}

func vcEnd() string {
	if vcIn == nil {
		return "bad-op no session"
	}
	r := vcSend([]string{"end"})
	if vcIn == nil {
		return r
	}
	close(vcIn)
	vcIn = nil
	select {
	case c := <-vcDone:
		return r + ";census=" + c
	case <-time.After(20 * time.Second):
		vcDump("watchdog-end")
		return r + ";census=WATCHDOG bubble did not end within 20 s of real time"
	}
}
