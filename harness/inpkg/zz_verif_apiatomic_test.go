//go:build verif

package ice

// Component "apiatomic" of the /verif harness (property C10, both tiers).
//
//	apiatomic run <scenario> <seed>   -> "ok" | "atomicity <what>"
//
// C10: "… each call observes a state produced by whole preceding operations".  Each scenario issues the
// SAME kind of public call from several goroutines at once, with the task loop held busy by a blocked
// task so that all of them overlap (every caller is parked either on the API's own lock or in loop.Run
// before the loop is released), and then checks that the outcome is one that some SEQUENTIAL order of the
// whole calls could have produced:
//
//	start   k × StartDial/StartAccept with distinct credentials: exactly one succeeds, all the others return
//	        ErrMultipleStart, and role + remote credentials are those of the successful call
//	restart k × Restart(u_i, p_i): the local credentials are (u_i, p_i) of ONE call
//	creds   k × SetRemoteCredentials(u_i, p_i): the remote credentials are (u_i, p_i) of ONE call
//	snapshot a slice returned by GetRemoteCandidates stays what it was when later calls change the agent's sets
//	gather  k × GatherCandidates: each is accepted (superseding the previous cycle while the state is still New) or
//	        refused with ErrMultipleGatherAttempted, and exactly one end-of-candidates (nil) is delivered
//
// No model: the expected output is "ok" (Driver/ApiAtomic.lean).

import (
	"context"
	"errors"
	"fmt"
	"net"
	"sort"
	"strconv"
	"strings"
	"sync"
	"sync/atomic"
	"time"

	"github.com/pion/logging"
	"github.com/pion/stun/v3"
)

func init() { vComponents["apiatomic"] = &vComp{gen: vAtomicGen, exec: vAtomicExec} }

func vaAgent(opts ...AgentOption) (*Agent, error) {
	lf := logging.NewDefaultLoggerFactory()
	lf.DefaultLogLevel = logging.LogLevelDisabled
	base := []AgentOption{
		WithLoggerFactory(lf),
		WithNetworkTypes([]NetworkType{NetworkTypeUDP4}),
		WithMulticastDNSMode(MulticastDNSModeDisabled),
		WithNet(vhNet()),
		WithCandidateTypes([]CandidateType{CandidateTypeHost}),
	}

	return NewAgentWithOptions(append(base, opts...)...)
}

// vaOverlap parks a task on the agent's loop, starts every fn in its own goroutine, gives them time to
// reach their blocking point, releases the loop and waits for all of them.
func vaOverlap(a *Agent, r *vRand, fns []func()) {
	release := make(chan struct{})
	entered := make(chan struct{})
	go func() {
		_ = a.loop.Run(a.loop, func(context.Context) {
			close(entered)
			<-release
		})
	}()
	<-entered
	var wg sync.WaitGroup
	for _, f := range fns {
		wg.Add(1)
		go func(f func()) {
			defer wg.Done()
			f()
		}(f)
		if r.chance(1, 2) {
			time.Sleep(200 * time.Microsecond) // vary who gets to its lock first
		}
	}
	time.Sleep(3 * time.Millisecond)
	close(release)
	wg.Wait()
}

func vaStart(r *vRand) string {
	a, err := vaAgent()
	if err != nil {
		return "error " + err.Error()
	}
	defer func() { _ = a.Close() }()
	k := 2 + r.intn(3)
	type call struct {
		ctl  bool
		u, p string
		err  error
	}
	calls := make([]call, k)
	fns := make([]func(), k)
	for i := range calls {
		calls[i] = call{ctl: r.chance(1, 2), u: fmt.Sprintf("u%d", i), p: fmt.Sprintf("pwd%d", i)}
		c := &calls[i]
		fns[i] = func() {
			if c.ctl {
				_, c.err = a.StartDial(c.u, c.p)
			} else {
				_, c.err = a.StartAccept(c.u, c.p)
			}
		}
	}
	vaOverlap(a, r, fns)
	ok, refused, winner := 0, 0, -1
	for i, c := range calls {
		switch {
		case c.err == nil:
			ok++
			winner = i
		case errors.Is(c.err, ErrMultipleStart):
			refused++
		default:
			return "error start: " + c.err.Error()
		}
	}
	if ok != 1 || refused != k-1 {
		return fmt.Sprintf("atomicity start: %d concurrent Start calls, %d succeeded and %d returned ErrMultipleStart", k, ok, refused)
	}
	var ctl bool
	var ru, rp string
	if err := a.loop.Run(a.loop, func(context.Context) {
		ctl, ru, rp = a.isControlling.Load(), a.remoteUfrag, a.remotePwd
	}); err != nil {
		return "error " + err.Error()
	}
	w := calls[winner]
	if ctl != w.ctl || ru != w.u || rp != w.p {
		return fmt.Sprintf("atomicity start: the successful call was (controlling=%t,%s,%s) but the agent has (controlling=%t,%s,%s)",
			w.ctl, w.u, w.p, ctl, ru, rp)
	}

	return "ok"
}

func vaPwd(i int) string { return fmt.Sprintf("password-number-%d-0123456789", i) } // ≥ 128 bits

func vaRestart(r *vRand) string {
	a, err := vaAgent()
	if err != nil {
		return "error " + err.Error()
	}
	defer func() { _ = a.Close() }()
	k := 2 + r.intn(4)
	errs := make([]error, k)
	fns := make([]func(), k)
	for i := 0; i < k; i++ {
		i := i
		fns[i] = func() { errs[i] = a.Restart(fmt.Sprintf("ufrag%d", i), vaPwd(i)) }
	}
	vaOverlap(a, r, fns)
	for _, e := range errs {
		if e != nil {
			return "error restart: " + e.Error()
		}
	}
	u, p, err := a.GetLocalUserCredentials()
	if err != nil {
		return "error " + err.Error()
	}
	for i := 0; i < k; i++ {
		if u == fmt.Sprintf("ufrag%d", i) && p == vaPwd(i) {
			return "ok"
		}
	}

	return fmt.Sprintf("atomicity restart: local credentials (%s,%s) are not those of any single Restart call", u, p)
}

func vaCreds(r *vRand) string {
	a, err := vaAgent()
	if err != nil {
		return "error " + err.Error()
	}
	defer func() { _ = a.Close() }()
	k := 2 + r.intn(4)
	fns := make([]func(), k)
	for i := 0; i < k; i++ {
		i := i
		fns[i] = func() { _ = a.SetRemoteCredentials(fmt.Sprintf("ru%d", i), fmt.Sprintf("rp%d", i)) }
	}
	vaOverlap(a, r, fns)
	u, p, err := a.GetRemoteUserCredentials()
	if err != nil {
		return "error " + err.Error()
	}
	for i := 0; i < k; i++ {
		if u == fmt.Sprintf("ru%d", i) && p == fmt.Sprintf("rp%d", i) {
			return "ok"
		}
	}

	return fmt.Sprintf("atomicity creds: remote credentials (%s,%s) are not those of any single SetRemoteCredentials call", u, p)
}

func vaGather(r *vRand) string {
	a, err := vaAgent()
	if err != nil {
		return "error " + err.Error()
	}
	var nils atomic.Int32
	if err := a.OnCandidate(func(c Candidate) {
		if c == nil {
			nils.Add(1)
		}
	}); err != nil {
		return "error " + err.Error()
	}
	k := 2 + r.intn(4)
	errs := make([]error, k)
	fns := make([]func(), k)
	for i := 0; i < k; i++ {
		i := i
		fns[i] = func() { errs[i] = a.GatherCandidates() }
	}
	vaOverlap(a, r, fns)
	ok, refused := 0, 0
	for _, e := range errs {
		switch {
		case e == nil:
			ok++
		case errors.Is(e, ErrMultipleGatherAttempted):
			refused++
		default:
			_ = a.Close()

			return "error gather: " + e.Error()
		}
	}
	// wait for the cycle to complete, then close (Close waits for the gatherers and drains the notifier)
	for i := 0; i < 2000; i++ {
		if st, _ := a.GetGatheringState(); st == GatheringStateComplete {
			break
		}
		time.Sleep(100 * time.Microsecond)
	}
	_ = a.GracefulClose()
	// While the state is still New a further call is accepted and supersedes (cancels) the cycle of the previous
	// one (C18: "a call issued once the state has left New is refused … never two overlapping cycles or a second
	// nil candidate"): at least one call is accepted, and together they produce ONE end-of-candidates.
	if ok < 1 || ok+refused != k {
		return fmt.Sprintf("atomicity gather: %d concurrent GatherCandidates calls, %d accepted and %d returned ErrMultipleGatherAttempted", k, ok, refused)
	}
	if n := nils.Load(); n != 1 {
		return fmt.Sprintf("atomicity gather: %d end-of-candidates notifications after %d overlapping GatherCandidates calls", n, k)
	}

	return "ok"
}

// vaSnapshot: a slice returned by GetRemoteCandidates / GetLocalCandidates is the CALLER's: later operations on
// the agent must not change it (C10: the caller reads it off the loop; an alias of the agent's own storage is
// both a data race and a torn view).  Remote candidates of two network types are added so that the agent's
// per-type sets have spare capacity, a snapshot is taken, more candidates are added / the sets are wiped, and
// the snapshot is compared with a private copy made at the time.
func vaSnapshot(r *vRand) string {
	a, err := vaAgent(WithNetworkTypes([]NetworkType{NetworkTypeUDP4, NetworkTypeUDP6}))
	if err != nil {
		return "error " + err.Error()
	}
	defer func() { _ = a.Close() }()
	port := 7000
	add := func(v6 bool) error {
		port++
		addr, network := fmt.Sprintf("10.9.%d.%d", port/250%250, port%250+1), "udp4"
		if v6 {
			addr, network = fmt.Sprintf("2001:db8::%x", port), "udp6"
		}
		c, err := NewCandidateHost(&CandidateHostConfig{Network: network, Address: addr, Port: port, Component: 1})
		if err != nil {
			return err
		}

		return a.AddRemoteCandidate(c)
	}
	for round := 0; round < 12; round++ {
		n4, n6 := 1+r.intn(3), 1+r.intn(4)
		for i := 0; i < n4; i++ {
			if err := add(false); err != nil {
				return "error " + err.Error()
			}
		}
		for i := 0; i < n6; i++ {
			if err := add(true); err != nil {
				return "error " + err.Error()
			}
		}
		// AddRemoteCandidate returns before its task ran: wait for the sets to settle
		_, _ = a.GetRemoteCandidates()
		snap, err := a.GetRemoteCandidates()
		if err != nil {
			return "error " + err.Error()
		}
		want := append([]Candidate{}, snap...)
		for i := 0; i < 1+r.intn(4); i++ {
			if err := add(r.chance(1, 2)); err != nil {
				return "error " + err.Error()
			}
		}
		if r.chance(1, 4) {
			if err := a.Restart("", ""); err != nil {
				return "error " + err.Error()
			}
		}
		_, _ = a.GetRemoteCandidates()
		if len(snap) != len(want) {
			return "atomicity snapshot: length of a returned candidate slice changed"
		}
		for i := range snap {
			if snap[i] != want[i] {
				return fmt.Sprintf("atomicity snapshot: element %d of a slice returned by GetRemoteCandidates changed after later AddRemoteCandidate calls (%s became %s)",
					i, want[i], snap[i])
			}
		}
	}

	return "ok"
}

// vaUrls: the URL list installed by WithUrls belongs to the gathering cycles that captured it (the cycle's context
// carries the slice and the gather goroutines read it off the loop): a later UpdateOptions(WithUrls(…)) installs a
// NEW list and must not write into the old one.
func vaUrls(r *vRand) string {
	mk := func(n, salt int) []*stun.URI {
		out := make([]*stun.URI, 0, n+r.intn(3))
		for i := 0; i < n; i++ {
			u, err := stun.ParseURI(fmt.Sprintf("stun:192.0.2.%d:%d", 1+salt%200, 3478+i))
			if err != nil {
				panic(err)
			}
			out = append(out, u)
		}

		return out
	}
	a, err := vaAgent(WithCandidateTypes([]CandidateType{CandidateTypeHost, CandidateTypeServerReflexive}), WithUrls(mk(2+r.intn(3), 1)))
	if err != nil {
		return "error " + err.Error()
	}
	defer func() { _ = a.Close() }()
	for round := 0; round < 8; round++ {
		var held []*stun.URI
		if err := a.loop.Run(a.loop, func(context.Context) { held = a.urls }); err != nil {
			return "error " + err.Error()
		}
		want := append([]*stun.URI{}, held...)
		texts := make([]string, len(held))
		for i, u := range held {
			texts[i] = u.String()
		}
		if err := a.UpdateOptions(WithUrls(mk(r.intn(len(held)+2), 2+round))); err != nil {
			return "error " + err.Error()
		}
		for i := range held {
			if held[i] != want[i] || held[i].String() != texts[i] {
				return fmt.Sprintf("atomicity urls: UpdateOptions(WithUrls) wrote into the URL list a running gathering cycle may still hold (entry %d: %s became %s)",
					i, texts[i], held[i])
			}
		}
	}

	return "ok"
}

// vaRenomRole: RenominateCandidate is one whole operation: its "only the controlling agent" test and the nomination it
// sends must see the same role.  The loop is held busy; a Binding request revealing a role conflict that the agent
// loses is queued (receive loop), then RenominateCandidate; whatever order the loop serves them in, no Binding
// request with USE-CANDIDATE / a nomination value may leave the agent while its role is controlled.
type vaRoleConn struct {
	*vhConn
	a    atomic.Pointer[Agent]
	bad  atomic.Int32
	sent atomic.Int32
}

func (c *vaRoleConn) WriteTo(b []byte, addr net.Addr) (int, error) {
	if a := c.a.Load(); a != nil && stun.IsMessage(b) {
		m := &stun.Message{Raw: append([]byte{}, b...)}
		if m.Decode() == nil && m.Type.Class == stun.ClassRequest &&
			(m.Contains(stun.AttrUseCandidate) || m.Contains(a.nominationAttribute)) {
			c.sent.Add(1)
			if !a.isControlling.Load() {
				c.bad.Add(1)
			}
		}
	}

	return c.vhConn.WriteTo(b, addr)
}

func vaRenomRole(r *vRand) string {
	h := newVhHub()
	a, err := vaAgent(WithRenomination(func() uint32 { return 7 }))
	if err != nil {
		return "error " + err.Error()
	}
	defer func() { _ = a.Close() }()
	a.tieBreaker = 5
	local, err := NewCandidateHost(&CandidateHostConfig{Network: "udp", Address: "10.0.0.1", Port: 5000, Component: 1})
	if err != nil {
		return "error " + err.Error()
	}
	conn := &vaRoleConn{vhConn: h.listen(&net.UDPAddr{IP: net.ParseIP("10.0.0.1"), Port: 5000})}
	peer := h.listen(&net.UDPAddr{IP: net.ParseIP("10.0.0.2"), Port: 5000})
	if err := a.addCandidate(context.Background(), local, conn); err != nil {
		return "error " + err.Error()
	}
	remote, err := NewCandidateHost(&CandidateHostConfig{Network: "udp", Address: "10.0.0.2", Port: 5000, Component: 1})
	if err != nil {
		return "error " + err.Error()
	}
	if err := a.AddRemoteCandidate(remote); err != nil {
		return "error " + err.Error()
	}
	if _, err := a.StartDial("remoteufrag", "remotepassword-0123456789abcdef"); err != nil {
		return "error " + err.Error()
	}
	conn.a.Store(a)
	lu, lp, _ := a.GetLocalUserCredentials()
	// a request from the peer that also claims to be controlling, with the greater tie-breaker: the agent must switch
	req, err := stun.Build(stun.BindingRequest, stun.TransactionID, stun.NewUsername(lu+":remoteufrag"),
		AttrControlling(99), PriorityAttr(100), stun.NewShortTermIntegrity(lp), stun.Fingerprint)
	if err != nil {
		return "error " + err.Error()
	}
	release := make(chan struct{})
	entered := make(chan struct{})
	go func() {
		_ = a.loop.Run(a.loop, func(context.Context) {
			close(entered)
			<-release
		})
	}()
	<-entered
	var renomErr error
	done := make(chan struct{})
	first := r.chance(1, 2)
	sendReq := func() { _, _ = peer.WriteTo(req.Raw, conn.addr) }
	callRenom := func() {
		go func() {
			defer close(done)
			locals, _ := a.localCandidates[NetworkTypeUDP4], 0
			var l Candidate = local
			if len(locals) > 0 {
				l = locals[0]
			}
			renomErr = a.RenominateCandidate(l, remote)
		}()
	}
	if first {
		sendReq()
		time.Sleep(2 * time.Millisecond)
		callRenom()
	} else {
		callRenom()
		time.Sleep(2 * time.Millisecond)
		sendReq()
	}
	time.Sleep(3 * time.Millisecond)
	close(release)
	select {
	case <-done:
	case <-time.After(10 * time.Second):
		return "hung"
	}
	// let the queued inbound request be served too
	for i := 0; i < 200 && a.isControlling.Load(); i++ {
		time.Sleep(100 * time.Microsecond)
	}
	_ = a.loop.Run(a.loop, func(context.Context) {})
	if n := conn.bad.Load(); n > 0 {
		return fmt.Sprintf("atomicity renomrole: %d Binding request(s) with USE-CANDIDATE / nomination left the agent while its role was controlled (RenominateCandidate returned %v)", n, renomErr)
	}
	if renomErr != nil && !errors.Is(renomErr, ErrOnlyControllingAgentCanRenominate) && !errors.Is(renomErr, ErrCandidatePairNotFound) {
		return "error renomrole: " + renomErr.Error()
	}

	return "ok"
}

// vaMidTask: while a task occupies the loop (it may be half way through a change of several fields), a getter that
// returns a COMPOSITE of loop-owned state (pair state + nominated flag + counters, candidate lists, credential pairs)
// must not return: it has to observe a state produced by whole operations, so it queues behind the task.
func vaMidTask(r *vRand) string {
	a, err := vaAgent()
	if err != nil {
		return "error midtask: " + err.Error()
	}
	defer func() { _ = a.Close() }()
	getters := []struct {
		name string
		fn   func()
	}{
		{"GetSelectedCandidatePairStats", func() { _, _ = a.GetSelectedCandidatePairStats() }},
		{"GetCandidatePairsStats", func() { _ = a.GetCandidatePairsStats() }},
		{"GetLocalCandidatesStats", func() { _ = a.GetLocalCandidatesStats() }},
		{"GetRemoteCandidatesStats", func() { _ = a.GetRemoteCandidatesStats() }},
		{"GetLocalCandidates", func() { _, _ = a.GetLocalCandidates() }},
		{"GetRemoteCandidates", func() { _, _ = a.GetRemoteCandidates() }},
		{"GetLocalUserCredentials", func() { _, _, _ = a.GetLocalUserCredentials() }},
		{"GetRemoteUserCredentials", func() { _, _, _ = a.GetRemoteUserCredentials() }},
	}
	release := make(chan struct{})
	parked := make(chan struct{})
	go func() { _ = a.loop.Run(a.loop, func(context.Context) { close(parked); <-release }) }()
	<-parked
	var early atomic.Int64
	var mu sync.Mutex
	var names []string
	var wg sync.WaitGroup
	released := atomic.Bool{}
	for _, g := range getters {
		wg.Add(1)
		go func() {
			defer wg.Done()
			g.fn()
			if !released.Load() {
				early.Add(1)
				mu.Lock()
				names = append(names, g.name)
				mu.Unlock()
			}
		}()
	}
	time.Sleep(time.Duration(5+r.intn(20)) * time.Millisecond)
	released.Store(true)
	close(release)
	wg.Wait()
	if early.Load() > 0 {
		sort.Strings(names)
		return "atomicity midtask: " + strings.Join(names, ",") + " returned while a task was running on the loop (composite result not produced by whole operations)"
	}

	return "ok"
}

var vaScenarios = map[string]func(*vRand) string{
	"midtask":   vaMidTask,
	"start":     vaStart,
	"restart":   vaRestart,
	"creds":     vaCreds,
	"gather":    vaGather,
	"snapshot":  vaSnapshot,
	"urls":      vaUrls,
	"renomrole": vaRenomRole,
}

func vAtomicExec(o *vOut, t []string) string {
	if len(t) != 4 || t[1] != "run" {
		return "bad-op"
	}
	f, ok := vaScenarios[t[2]]
	if !ok {
		return "bad-op"
	}
	seed, _ := strconv.Atoi(t[3])
	done := make(chan string, 1)
	go func() { done <- f(&vRand{s: uint64(seed)*0x9e3779b97f4a7c15 + 11}) }()
	select {
	case res := <-done:
		o.stat("atomic.scenario." + t[2])
		if !strings.HasPrefix(res, "ok") {
			o.stat("atomic.notok." + t[2])
		}

		return strings.NewReplacer("\t", " ", "\n", " ").Replace(res)
	case <-time.After(30 * time.Second):
		o.stat("atomic.hung." + t[2])

		return "hung"
	}
}

func vAtomicGen(_ *vOut, r *vRand, thorough bool, _ []string, emit func(string)) {
	reps := 25
	if thorough {
		reps = 400
	}
	names := make([]string, 0, len(vaScenarios))
	for n := range vaScenarios {
		names = append(names, n)
	}
	sort.Strings(names)
	for i := 0; i < reps; i++ {
		for _, n := range names {
			emit(fmt.Sprintf("apiatomic run %s %d", n, r.intn(1<<30)))
		}
	}
}
