//go:build verif

// C12, tie A for the UNIVERSAL layer — concurrent acceptance recorder (component "udpmuxuniconc").
//
// One session = one real UniversalUDPMuxDefault over the scripted fake socket inside ONE testing/synctest bubble
// (virtual clock), with several goroutines running truly concurrently inside a virtual instant:
//
//	waiter actors   sequential GetXORMappedAddr calls (servers named through aliasing raw forms, ODD deadlines)
//	feeder          datagrams from server and non-server addresses (Binding success with / without XOR-MAPPED-ADDRESS,
//	                error response / indication carrying it, STUN with USERNAME, non-STUN)
//	conn actors     GetConnForURL / WriteTo / handle Close / RemoveConnByUfrag (ufrag and ufrag+url keys)
//	closer          (some sessions) UniversalUDPMuxDefault.Close
//
// Every call and return is stamped from one atomic counter and carries the virtual time (ms).  All actors act at EVEN
// virtual instants, all deadlines are odd: a timer never fires in the instant in which anything else happens, so the
// only nondeterminism is the interleaving INSIDE an instant (what the Lean search linearises); between instants the
// bubble is quiescent by construction of synctest.
//
//	new <ap> <procs> <ttl_ms> <n>
//	conn <cid> u:<key> <v6> <stamp>          write <cid> <addr> <call> <ret>      closed <cid> <stamp>
//	feed <pid> <src> <kind> <t0> <t1> <vt>   read <cid> <pid|corrupt> <src> <stamp>
//	xcall <w> <server> <deadline_ms> <stamp> <vt>      xret <w> <ok:v|timeout|nomap|werr|err:…> <stamp> <vt>
//	closemux <call> <ret> <vt>               quiesce <ok|…>                       end
package ice

import (
	"fmt"
	"net"
	"runtime"
	"sort"
	"strings"
	"sync"
	"testing"
	"testing/synctest"
	"time"
)

func init() {
	vComponents["udpmuxuniconc"] = &vComp{gen: vUucGen, exec: vUucExec}
}

var vUucURLs = []string{"", "", "stun:h1:3478", "X"}

type vUucCfg struct {
	ap      bool
	ttl     int
	waiters int
	calls   int
	feeds   int
	conns   int
	connOps int
	closeAt int // virtual ms (even) at which Close is called; < 0: never
}

func vUucBody(r *vRand, cfg vUucCfg) (evs []vUmcEvent, stats map[string]int) {
	stats = map[string]int{}
	var stMu sync.Mutex
	stat := func(k string) { stMu.Lock(); stats[k]++; stMu.Unlock() }
	s := &vUmcSess{conns: map[*udpMuxedConn]int{}, closed: map[int]bool{}, fed: map[string]int{}, ap: cfg.ap}
	f := newVUmFake((vUmAddr{hi: 0, lo: 0, port: 7000}).udpAddr())
	jr := r.fork()
	var jmu sync.Mutex
	f.delay = func() {
		jmu.Lock()
		x := jr.intn(4)
		jmu.Unlock()
		if x == 0 {
			runtime.Gosched()
		}
	}
	var pc net.PacketConn = f
	if cfg.ap {
		pc = vUmFakeAP{f}
	}
	t0 := time.Now()
	vt := func() int64 { return time.Since(t0).Milliseconds() }
	uni := NewUniversalUDPMuxDefault(UniversalUDPMuxParams{UDPConn: pc, Logger: vUmQuietLogger(),
		XORMappedAddrCacheTTL: time.Duration(cfg.ttl) * time.Millisecond})
	mux := uni.UDPMuxDefault
	for f.reads.Load() == 0 { // the worker is inside its first read
		runtime.Gosched()
	}
	nsrv := 1 + r.intn(3)
	servers := vUmcRemotes[:nsrv] // [0] and [1] are two raw forms of one transport address
	ufrags := []string{"a", "b"}
	even := func(ar *vRand) {
		if vt()%2 == 1 {
			time.Sleep(time.Millisecond)
		}
		time.Sleep(time.Duration([]int{0, 0, 0, 2, 4, 10, 30}[ar.intn(7)]) * time.Millisecond)
		if ar.chance(1, 3) {
			runtime.Gosched()
		}
	}
	var all sync.Mutex
	var allHandles []net.PacketConn
	var wg sync.WaitGroup
	nw := 0
	// waiter actors
	for ai := 0; ai < cfg.waiters; ai++ {
		ar := r.fork()
		wg.Add(1)
		go func() {
			defer wg.Done()
			for k := 0; k < cfg.calls; k++ {
				srv := servers[ar.intn(len(servers))]
				d := []int{5, 15, 35, 75}[ar.intn(4)]
				a, _ := vUmParseAddr(srv)
				s.mu.Lock()
				w := nw
				nw++
				s.mu.Unlock()
				call := s.tick()
				s.add(call, fmt.Sprintf("udpmuxuniconc xcall %d %s %d %d %d", w, srv, d, call, vt()))
				addr, err := uni.GetXORMappedAddr(a.udpAddr(), time.Duration(d)*time.Millisecond)
				ret := s.tick()
				res := ""
				if err != nil {
					res = vUuErr(err)
				} else {
					res = "ok:" + vUuValueTok(addr)
				}
				stat("x." + strings.SplitN(res, ":", 2)[0])
				s.add(ret, fmt.Sprintf("udpmuxuniconc xret %d %s %d %d", w, res, ret, vt()))
				even(ar)
			}
		}()
	}
	// conn actors
	for ai := 0; ai < cfg.conns; ai++ {
		ar := r.fork()
		wg.Add(1)
		go func() {
			defer wg.Done()
			var mine []net.PacketConn
			for k := 0; k < cfg.connOps; k++ {
				switch x := ar.intn(100); {
				case x < 25 || len(mine) == 0:
					u := ufrags[ar.intn(len(ufrags))]
					url := vUucURLs[ar.intn(len(vUucURLs))]
					la, _ := vUmParseAddr(vUmcLocals[ar.intn(2)])
					call := s.tick()
					h, err := uni.GetConnForURL(u, url, la.udpAddr())
					if err != nil {
						break
					}
					c := vUmUnderlying(h)
					s.cid(c, u+url, !la.is4, call)
					mine = append(mine, h)
					all.Lock()
					allHandles = append(allHandles, h)
					all.Unlock()
				case x < 70:
					h := mine[ar.intn(len(mine))]
					a, _ := vUmParseAddr(vUmcRemotes[ar.intn(len(vUmcRemotes))])
					c := vUmUnderlying(h)
					call := s.tick()
					var err error
					if apc, isAP := h.(*sharedAddrPortConn); isAP {
						_, err = apc.WriteToAddrPort([]byte("w"), a.addrPort())
					} else {
						_, err = h.WriteTo([]byte("w"), a.udpAddr())
					}
					ret := s.tick()
					if err == nil {
						s.mu.Lock()
						id := s.conns[c]
						s.mu.Unlock()
						s.add(call, fmt.Sprintf("udpmuxconc write %d %s %d %d", id, a.token(), call, ret))
					}
				case x < 90:
					i := ar.intn(len(mine))
					h := mine[i]
					mine = append(mine[:i], mine[i+1:]...)
					c := vUmUnderlying(h)
					_ = h.Close()
					s.noteClosed(c)
				default:
					u := ufrags[ar.intn(len(ufrags))] + vUucURLs[ar.intn(len(vUucURLs))]
					uni.RemoveConnByUfrag(u)
					s.mu.Lock()
					var cs []*udpMuxedConn
					for c := range s.conns {
						if c.params.Key == u {
							cs = append(cs, c)
						}
					}
					s.mu.Unlock()
					for _, c := range cs {
						s.noteClosed(c)
					}
				}
				even(ar)
			}
		}()
	}
	// closer
	if cfg.closeAt >= 0 {
		wg.Add(1)
		go func() {
			defer wg.Done()
			time.Sleep(time.Duration(cfg.closeAt) * time.Millisecond)
			call := s.tick()
			_ = uni.Close()
			ret := s.tick()
			s.add(call, fmt.Sprintf("udpmuxuniconc closemux %d %d %d", call, ret, vt()))
			stat("closemux")
		}()
	}
	// feeder
	fr := r.fork()
	wg.Add(1)
	go func() {
		defer wg.Done()
		for pid := 1; pid <= cfg.feeds; pid++ {
			var src string
			if fr.chance(2, 3) {
				src = servers[fr.intn(len(servers))]
			} else {
				src = vUmcRemotes[fr.intn(len(vUmcRemotes))]
			}
			a, _ := vUmParseAddr(src)
			var kind string
			switch x := fr.intn(20); {
			case x < 10:
				kind = fmt.Sprintf("xs:w:%d", 1+fr.intn(5))
			case x < 11:
				kind = "xn:w"
			case x < 12:
				kind = fmt.Sprintf("xe:w:%d", 1+fr.intn(5))
			case x < 13:
				kind = fmt.Sprintf("xi:%d", 1+fr.intn(5))
			case x < 14:
				kind = "xb:w"
			case x < 16:
				kind = "ns"
			default:
				kind = "su:" + ufrags[fr.intn(len(ufrags))] + ":x"
			}
			var data []byte
			if strings.HasPrefix(kind, "x") {
				data, _ = vUuPayload(kind, pid, nil)
			} else {
				data = vUmPayload(kind, pid)
			}
			s.mu.Lock()
			s.fed[string(data)] = pid
			s.mu.Unlock()
			n0 := f.reads.Load()
			t0s := s.tick()
			select { // a closed socket returns nothing: do not hand a datagram to a socket seen closed after t0
			case <-f.closed:
				return
			default:
			}
			select {
			case f.feed <- vUmDgram{data: data, src: a}:
				for f.reads.Load() == n0 {
					if mux.IsClosed() { // the worker may have left its loop: wait for the bubble to settle instead
						synctest.Wait()
						break
					}
					runtime.Gosched()
				}
			case <-f.closed:
				return
			}
			t1 := s.tick()
			s.add(t1, fmt.Sprintf("udpmuxuniconc feed %d %s %s %d %d %d", pid, a.token(), kind, t0s, t1, vt()))
			stat("feed." + strings.SplitN(kind, ":", 2)[0])
			even(fr)
		}
	}()
	wg.Wait()
	synctest.Wait()
	q := "ok"
	if !mux.IsClosed() {
		q = vUmCheckQuiescent(mux)
	}
	st := s.tick()
	s.add(st, "udpmuxuniconc quiesce "+q)
	_ = uni.Close()
	for _, h := range allHandles {
		_ = h.Close()
	}
	s.wg.Wait()
	synctest.Wait()
	for i := range s.events {
		s.events[i].line = strings.Replace(s.events[i].line, "udpmuxconc ", "udpmuxuniconc ", 1)
	}
	sort.SliceStable(s.events, func(i, j int) bool { return s.events[i].stamp < s.events[j].stamp })
	return s.events, stats
}

func vUucRun(r *vRand, procs int, cfg vUucCfg) (evs []vUmcEvent, stats map[string]int, fail string) {
	old := runtime.GOMAXPROCS(procs)
	defer runtime.GOMAXPROCS(old)
	done := make(chan struct{})
	go func() {
		defer close(done)
		defer func() {
			if p := recover(); p != nil {
				fail = fmt.Sprint(p)
			}
		}()
		testing.RunTests(vUmMatchAll, []testing.InternalTest{{Name: "TestVerifHarness", F: func(t *testing.T) {
			synctest.Test(t, func(*testing.T) { evs, stats = vUucBody(r, cfg) })
		}}})
	}()
	<-done
	return
}

var vUucRecorded = map[string]string{}

func vUucExec(_ *vOut, t []string) string {
	if out, ok := vUucRecorded[strings.Join(t, " ")]; ok {
		return out
	}
	return "ok" // replay of a recorded history: the events carry their own data
}

func vUucGen(o *vOut, r *vRand, thorough bool, _ []string, emit func(string)) {
	sessions := 150
	if thorough {
		sessions = 1500
	}
	sessions = vEnvInt("VERIF_UDPMUXUNICONC_SESSIONS", sessions)
	for si := 0; si < sessions; si++ {
		procs := []int{1, 2, 4, 16}[r.intn(4)]
		cfg := vUucCfg{ap: r.intn(2) == 1, ttl: []int{20, 40, 100, 0}[r.intn(4)], waiters: 2 + r.intn(3), calls: 2 + r.intn(4),
			feeds: 4 + r.intn(12), conns: r.intn(3), connOps: 4 + r.intn(10), closeAt: -1}
		if r.chance(1, 3) {
			cfg.closeAt = 2 * r.intn(40)
		}
		evs, stats, fail := vUucRun(r.fork(), procs, cfg)
		vUucRecorded = map[string]string{}
		apf := 0
		if cfg.ap {
			apf = 1
		}
		ttl := cfg.ttl
		if ttl == 0 {
			ttl = 25000
		}
		emit(fmt.Sprintf("udpmuxuniconc new %d %d %d %d", apf, procs, ttl, si))
		if fail != "" || evs == nil {
			vUucRecorded["udpmuxuniconc crashed"] = "PANIC " + strings.NewReplacer("\n", " ", "\t", " ").Replace(fail)
			emit("udpmuxuniconc crashed")
			emit("udpmuxuniconc end")
			continue
		}
		for _, e := range evs {
			vUucRecorded[e.line] = e.out
			emit(e.line)
		}
		emit("udpmuxuniconc end")
		o.stat(fmt.Sprintf("uniconc.sessions.procs%d", procs))
		o.statN("uniconc.events", len(evs))
		for k, v := range stats {
			o.statN("uniconc."+k, v)
		}
	}
}
