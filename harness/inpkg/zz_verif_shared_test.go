//go:build verif

// Harness component "shared" (property C13, tie C): reference-counted handles.
//
// One session = one underlying connection and the handles over it, driven one call at a time:
//
//	kind fake : newSharedPacketConn over a counting fake muxedPacketConn (counts Close calls; honours
//	            SetWriteDeadline like a real socket: a write under a past deadline fails with the deadline error)
//	kind udp  : handles returned by UDPMuxDefault.GetConn for one ufrag (underlying *udpMuxedConn)
//	kind tcpm<k>: the same *tcpPacketConn with k scripted net.Conns (vShTConn: honours its write deadline like a
//	            socket; `refuse c on|off` makes connection c refuse SetWriteDeadline / SetDeadline - the fault
//	            "SetWriteDeadline fails" on the TCP side); `write h c` goes to connection c
//	kind udpap: the same over an AddrPort-capable shared socket: the handles are *sharedAddrPortConn and
//	            `writeap h` goes through sharedAddrPortConn.WriteToAddrPort (on the other kinds = write)
//	kind tcp  : handles returned by TCPMuxDefault.GetConnByUfrag (underlying *tcpPacketConn, one TCP
//	            connection — a net.Pipe — attached so that writes and reads have somewhere to go)
//
// Reads that block are parked in a goroutine and reported `pending`; they are collected when the
// handle's Close (or a feed) releases them.
//
// Deadline ops on a handle: setrd (SetReadDeadline), setwd (SetWriteDeadline), setd (SetDeadline) with
// past|zero, and `abort h` = the sequence candidateBase.abortIO performs on the candidate's handle
// (SetDeadline(time.Now()), abortWrite if the handle is a writeAborter, Close) while siblings stay open.
package ice

import (
	"context"
	"encoding/binary"
	"errors"
	"fmt"
	"io"
	"net"
	"net/netip"
	"os"
	"runtime"
	"strings"
	"sync"
	"sync/atomic"
	"time"
)

// ---- counting fake underlying connection ---------------------------------------------------

type vShFake struct {
	mu     sync.Mutex
	queue  int
	closes int
	parked int
	wake   chan struct{}
	setwd  int
	wdPast bool // write deadline register: a time that has passed
}

func newVShFake() *vShFake { return &vShFake{wake: make(chan struct{})} }

func (f *vShFake) broadcast() { // f.mu held
	close(f.wake)
	f.wake = make(chan struct{})
}

func (f *vShFake) readFromContext(ctx context.Context, b []byte) (int, net.Addr, error) {
	for {
		f.mu.Lock()
		if f.queue > 0 {
			f.queue--
			f.mu.Unlock()
			return 1, &net.UDPAddr{IP: net.IPv4(10, 0, 0, 9), Port: 9}, nil
		}
		if f.closes > 0 {
			f.mu.Unlock()
			return 0, nil, io.EOF
		}
		if err := ctx.Err(); err != nil {
			f.mu.Unlock()
			return 0, nil, err
		}
		f.parked++
		w := f.wake
		f.mu.Unlock()
		var err error
		select {
		case <-w:
		case <-ctx.Done():
			err = ctx.Err()
		}
		f.mu.Lock()
		f.parked--
		f.mu.Unlock()
		if err != nil {
			return 0, nil, err
		}
	}
}
func (f *vShFake) ReadFrom(b []byte) (int, net.Addr, error) {
	return f.readFromContext(context.Background(), b)
}
func (f *vShFake) WriteTo(b []byte, _ net.Addr) (int, error) {
	f.mu.Lock()
	defer f.mu.Unlock()
	if f.closes > 0 {
		return 0, io.ErrClosedPipe
	}
	if f.wdPast {
		return 0, os.ErrDeadlineExceeded
	}
	return len(b), nil
}
func (f *vShFake) Close() error {
	f.mu.Lock()
	f.closes++
	f.queue = 0
	f.broadcast()
	f.mu.Unlock()
	return nil
}
func (f *vShFake) LocalAddr() net.Addr             { return &net.UDPAddr{IP: net.IPv4(10, 0, 0, 1), Port: 5000} }
func (f *vShFake) SetDeadline(time.Time) error     { return nil }
func (f *vShFake) SetReadDeadline(time.Time) error { return nil }
func (f *vShFake) SetWriteDeadline(t time.Time) error {
	f.mu.Lock()
	f.setwd++
	f.wdPast = !t.IsZero() && !t.After(time.Now())
	f.mu.Unlock()
	return nil
}

// ---- fake shared UDP socket / TCP listener for the mux kinds -------------------------------------

type vShSock struct {
	closedCh chan struct{}
	once     sync.Once
}

func (s *vShSock) ReadFrom(b []byte) (int, net.Addr, error) {
	<-s.closedCh
	return 0, nil, net.ErrClosed
}
func (s *vShSock) WriteTo(b []byte, _ net.Addr) (int, error) { return len(b), nil }
func (s *vShSock) Close() error                              { s.once.Do(func() { close(s.closedCh) }); return nil }
func (s *vShSock) LocalAddr() net.Addr                       { return &net.UDPAddr{IP: net.IPv4(10, 0, 0, 1), Port: 5000} }
func (s *vShSock) SetDeadline(time.Time) error               { return nil }
func (s *vShSock) SetReadDeadline(time.Time) error           { return nil }
func (s *vShSock) SetWriteDeadline(time.Time) error          { return nil }

// vShSockAP: the AddrPort-capable variant (asAddrPortReaderWriter accepts the interface).
type vShSockAP struct{ *vShSock }

func (s vShSockAP) WriteToAddrPort(b []byte, _ netip.AddrPort) (int, error) { return len(b), nil }
func (s vShSockAP) ReadFromAddrPort(b []byte) (int, netip.AddrPort, error) {
	<-s.closedCh
	return 0, netip.AddrPort{}, net.ErrClosed
}

// vShSP: the sharedPacketConn of a handle (a *sharedAddrPortConn embeds one).
func vShSP(c net.PacketConn) (*sharedPacketConn, bool) {
	switch h := c.(type) {
	case *sharedPacketConn:
		return h, true
	case *sharedAddrPortConn:
		return h.sharedPacketConn, true
	}
	return nil, false
}

// vShTConn: one scripted TCP connection of the ufrag.
type vShTConn struct {
	lAddr, rAddr net.Addr
	mu           sync.Mutex
	wdl          time.Time
	refuse       bool
	ever         bool // has refused at some time (statistics only)
	in           chan []byte
	rest         []byte
	closed       chan struct{}
	once         sync.Once
}

var errVShRefused = errors.New("connection reset: deadline refused")

func (c *vShTConn) Read(b []byte) (int, error) {
	if len(c.rest) == 0 {
		select {
		case f := <-c.in:
			c.rest = f
		case <-c.closed:
			return 0, io.EOF
		}
	}
	n := copy(b, c.rest)
	c.rest = c.rest[n:]
	return n, nil
}

func (c *vShTConn) Write(b []byte) (int, error) {
	c.mu.Lock()
	d := c.wdl
	c.mu.Unlock()
	if !d.IsZero() && !time.Now().Before(d) {
		return 0, os.ErrDeadlineExceeded
	}
	return len(b), nil
}
func (c *vShTConn) Close() error                    { c.once.Do(func() { close(c.closed) }); return nil }
func (c *vShTConn) LocalAddr() net.Addr             { return c.lAddr }
func (c *vShTConn) RemoteAddr() net.Addr            { return c.rAddr }
func (c *vShTConn) SetReadDeadline(time.Time) error { return nil }
func (c *vShTConn) SetDeadline(t time.Time) error   { return c.SetWriteDeadline(t) }
func (c *vShTConn) SetWriteDeadline(t time.Time) error {
	c.mu.Lock()
	defer c.mu.Unlock()
	if c.refuse {
		return errVShRefused
	}
	c.wdl = t
	return nil
}

type vShListener struct {
	closedCh chan struct{}
	once     sync.Once
}

func (l *vShListener) Accept() (net.Conn, error) { <-l.closedCh; return nil, net.ErrClosed }
func (l *vShListener) Close() error              { l.once.Do(func() { close(l.closedCh) }); return nil }
func (l *vShListener) Addr() net.Addr            { return &net.TCPAddr{IP: net.IPv4(10, 0, 0, 1), Port: 5001} }

// ---- session -------------------------------------------------------------------------------

type vShRead struct {
	res chan string
}

type vShSession struct {
	kind    string
	handles []net.PacketConn
	pend    [][]*vShRead // parked reads per handle
	rdPast  []bool       // the harness set a past read deadline on this handle
	wdOwn   []bool       // this handle last set a past write deadline itself (statistics only)
	ap      bool         // kind udpap

	fake *vShFake
	refs atomic.Int32

	umux  *UDPMuxDefault
	usock *vShSock
	uconn *udpMuxedConn

	tmux   *TCPMuxDefault
	tconn  *tcpPacketConn
	remote net.Conn // far end of the attached TCP connection
	nconns int      // kind tcpm<k>: k scripted connections instead of the pipe
	tconns []*vShTConn
	raddr  net.Addr
}

var vShCur *vShSession

func vShClass(err error) string {
	switch {
	case err == nil:
		return "ok"
	case errors.Is(err, io.ErrClosedPipe), errors.Is(err, io.EOF), errors.Is(err, net.ErrClosed), errors.Is(err, context.Canceled):
		return "err:closed"
	case errors.Is(err, os.ErrDeadlineExceeded), errors.Is(err, context.DeadlineExceeded):
		return "err:timeout"
	default:
		return "err:other"
	}
}

func (s *vShSession) end() {
	if s == nil {
		return
	}
	for _, h := range s.handles {
		_ = h.Close()
	}
	switch s.kind {
	case "udp":
		_ = s.umux.Close()
	case "tcp":
		if s.remote != nil {
			_ = s.remote.Close()
		}
		_ = s.tmux.Close()
	}
}

func vShNew(kind string) (*vShSession, string) {
	s := &vShSession{kind: kind}
	switch kind {
	case "fake":
		s.fake = newVShFake()
	case "udp", "udpap":
		s.usock = &vShSock{closedCh: make(chan struct{})}
		var conn net.PacketConn = s.usock
		if kind == "udpap" {
			s.kind, s.ap = "udp", true
			conn = vShSockAP{s.usock}
		}
		s.umux = NewUDPMuxDefault(UDPMuxParams{UDPConn: conn})
	case "tcp":
		s.tmux = NewTCPMuxDefault(TCPMuxParams{Listener: &vShListener{closedCh: make(chan struct{})}, ReadBufferSize: 64})
	default:
		var k int
		if n, err := fmt.Sscanf(kind, "tcpm%d", &k); n != 1 || err != nil || k < 1 || k > 16 {
			return nil, "bad-op kind"
		}
		s.kind, s.nconns = "tcp", k
		s.tmux = NewTCPMuxDefault(TCPMuxParams{Listener: &vShListener{closedCh: make(chan struct{})}, ReadBufferSize: 64})
	}
	return s, "ok"
}

func (s *vShSession) open() string {
	var h net.PacketConn
	switch s.kind {
	case "fake":
		h = newSharedPacketConn(s.fake, &s.refs)
	case "udp":
		c, err := s.umux.GetConn("ufragS", s.usock.LocalAddr())
		if err != nil {
			return vShClass(err)
		}
		sp, ok := vShSP(c)
		if _, isAP := c.(*sharedAddrPortConn); !ok || isAP != s.ap {
			return "err:other not-the-expected-handle-type"
		}
		uc, _ := sp.underlying.(*udpMuxedConn)
		if s.uconn == nil {
			s.uconn = uc
		} else if s.uconn != uc {
			return "err:other different-underlying"
		}
		h = c
	case "tcp":
		c, err := s.tmux.GetConnByUfrag("ufragS", false, net.IPv4(10, 0, 0, 1))
		if err != nil {
			return vShClass(err)
		}
		sp, ok := c.(*sharedPacketConn)
		if !ok {
			return "err:other not-a-sharedPacketConn"
		}
		tc, _ := sp.underlying.(*tcpPacketConn)
		if s.tconn == nil && s.nconns > 0 {
			s.tconn = tc
			for i := 0; i < s.nconns; i++ {
				c := &vShTConn{
					lAddr:  &net.TCPAddr{IP: net.IPv4(10, 0, 0, 1), Port: 5001},
					rAddr:  &net.TCPAddr{IP: net.IPv4(10, 0, 1, byte(i+1)), Port: 7000 + i},
					in:     make(chan []byte, 64),
					closed: make(chan struct{}),
				}
				if err := tc.AddConn(c, nil); err != nil {
					return "err:other addconn"
				}
				s.tconns = append(s.tconns, c)
			}
			s.raddr = s.tconns[0].rAddr
		} else if s.tconn == nil {
			s.tconn = tc
			local, remote := net.Pipe()
			if err := tc.AddConn(local, nil); err != nil {
				return "err:other addconn"
			}
			s.remote = remote
			s.raddr = local.RemoteAddr()
			go func() { // drain what the handles write
				buf := make([]byte, 2048)
				for {
					if _, err := remote.Read(buf); err != nil {
						return
					}
				}
			}()
		} else if s.tconn != tc {
			return "err:other different-underlying"
		}
		h = c
	}
	s.handles = append(s.handles, h)
	s.pend = append(s.pend, nil)
	s.rdPast = append(s.rdPast, false)
	s.wdOwn = append(s.wdOwn, false)
	return fmt.Sprintf("h%d", len(s.handles)-1)
}

// underlying closes seen so far (fake: exact count; mux kinds: closed flag)
func (s *vShSession) uCloses() int {
	switch s.kind {
	case "fake":
		s.fake.mu.Lock()
		defer s.fake.mu.Unlock()
		return s.fake.closes
	case "udp":
		if s.uconn != nil && s.uconn.isClosed() {
			return 1
		}
	case "tcp":
		if s.tconn != nil && s.tconn.isClosed() {
			return 1
		}
	}
	return 0
}

func (s *vShSession) queued() int {
	switch s.kind {
	case "fake":
		s.fake.mu.Lock()
		defer s.fake.mu.Unlock()
		return s.fake.queue
	case "udp":
		if s.uconn == nil {
			return 0
		}
		s.uconn.mu.Lock()
		defer s.uconn.mu.Unlock()
		n := 0
		for p := s.uconn.bufTail; p != nil; p = p.next {
			n++
		}
		return n
	case "tcp":
		if s.tconn == nil {
			return 0
		}
		return len(s.tconn.recvChan)
	}
	return 0
}

func (s *vShSession) parkedNow() int {
	switch s.kind {
	case "fake":
		s.fake.mu.Lock()
		defer s.fake.mu.Unlock()
		return s.fake.parked
	case "udp":
		if s.uconn != nil {
			return int(s.uconn.readWaiting.Load())
		}
	}
	return -1
}

func (s *vShSession) totalPending() int {
	n := 0
	for _, p := range s.pend {
		n += len(p)
	}
	return n
}

func (s *vShSession) handleOpen(h int) bool {
	sp, ok := vShSP(s.handles[h])
	return ok && sp.ctx.Err() == nil
}

func vShWait(ch chan string, d time.Duration) (string, bool) {
	select {
	case r := <-ch:
		return r, true
	case <-time.After(d):
		return "", false
	}
}

// vShHangs counts calls that did not return; the first one is waited for 10 s, later ones less and less
// (a broken tree makes every such call hang; the verdict is reached at the first).
var vShHangs int

func vShWaitP(ch chan string) (string, bool) {
	d := 10 * time.Second
	switch {
	case vShHangs >= 10:
		d = 200 * time.Millisecond
	case vShHangs >= 1:
		d = time.Second
	}
	r, ok := vShWait(ch, d)
	if !ok {
		vShHangs++
	}
	return r, ok
}

func (s *vShSession) read(h int) string {
	hc := s.handles[h] // captured: parked reads outlive later appends to s.handles
	doRead := func() string {
		buf := make([]byte, 1500)
		_, _, err := hc.ReadFrom(buf)
		if err == nil {
			return "data"
		}
		return vShClass(err)
	}
	// Will this call block? Decided from the implementation's own state, only to choose how to
	// wait; what is reported is what the call did.
	willBlock := s.handleOpen(h) && s.uCloses() == 0 && s.queued() == 0 && !s.rdPast[h]
	if !willBlock {
		ch := make(chan string, 1)
		go func() { ch <- doRead() }()
		if r, ok := vShWaitP(ch); ok {
			return r
		}
		return "hang"
	}
	rd := &vShRead{res: make(chan string, 1)}
	before := s.parkedNow()
	go func() { rd.res <- doRead() }()
	// wait until the read is parked (or, where the connection has no indicator, a moment)
	deadline := time.Now().Add(50 * time.Millisecond)
	if before < 0 {
		deadline = time.Now().Add(1 * time.Millisecond)
	}
	for time.Now().Before(deadline) {
		select {
		case r := <-rd.res:
			return r
		default:
		}
		if before >= 0 && s.parkedNow() > before {
			break
		}
		runtime.Gosched()
	}
	s.pend[h] = append(s.pend[h], rd)
	return "pending"
}

func (s *vShSession) closeH(h int) string {
	err := s.handles[h].Close() // an error is the refused clear of the shared write deadline: the close is done
	rel, odd := 0, ""
	for _, rd := range s.pend[h] {
		r, ok := vShWaitP(rd.res)
		switch {
		case !ok:
			odd += " hang"
		case r == "err:closed":
			rel++
		default:
			odd += " odd:" + r
		}
	}
	s.pend[h] = nil
	return fmt.Sprintf("%s u=%d rel=%d%s", vShClass(err), s.uCloses(), rel, odd)
}

// abortH performs on handle h what candidateBase.abortIO performs on the candidate's conn (first error
// is reported, as abortIO's closeErr): SetDeadline(time.Now()), abortWrite, Close.
func (s *vShSession) abortH(h int) string {
	hc := s.handles[h]
	var first error
	if err := hc.SetDeadline(time.Now()); err != nil {
		first = err
	} else {
		s.rdPast[h] = true
		s.wdOwn[h] = true
	}
	if a, ok := hc.(writeAborter); ok {
		if err := a.abortWrite(); err != nil && first == nil {
			first = err
		}
	}
	if err := hc.Close(); err != nil && first == nil {
		first = err
	}
	rel, odd := 0, ""
	for _, rd := range s.pend[h] {
		r, ok := vShWaitP(rd.res)
		switch {
		case !ok:
			odd += " hang"
		case r == "err:closed":
			rel++
		default:
			odd += " odd:" + r
		}
	}
	s.pend[h] = nil
	return fmt.Sprintf("%s u=%d rel=%d%s", vShClass(first), s.uCloses(), rel, odd)
}

func (s *vShSession) feed() string {
	if s.uCloses() > 0 || s.totalPending() > 1 {
		return "skip"
	}
	switch s.kind {
	case "fake":
		s.fake.mu.Lock()
		s.fake.queue++
		s.fake.broadcast()
		s.fake.mu.Unlock()
	case "udp":
		if s.uconn == nil {
			return "skip"
		}
		src := netip.MustParseAddrPort("10.0.0.9:9")
		if err := s.uconn.writePacket([]byte{1, 2, 3}, src, net.UDPAddrFromAddrPort(src)); err != nil {
			return vShClass(err)
		}
	case "tcp":
		if s.tconn == nil {
			return "skip"
		}
		before := len(s.tconn.recvChan)
		frame := make([]byte, 2+3)
		binary.BigEndian.PutUint16(frame, 3)
		copy(frame[2:], []byte{1, 2, 3})
		if s.nconns > 0 {
			s.tconns[0].in <- frame
		} else {
			_ = s.remote.SetWriteDeadline(time.Now().Add(10 * time.Second))
			if _, err := s.remote.Write(frame); err != nil {
				return vShClass(err)
			}
		}
		if s.totalPending() == 0 {
			limit := 100000
			if vShHangs > 0 { // a read that did not return is still parked and may take the datagram
				limit = 2000
			}
			for i := 0; len(s.tconn.recvChan) <= before && i < limit; i++ {
				time.Sleep(50 * time.Microsecond)
			}
		}
	}
	if s.totalPending() == 1 {
		for h, p := range s.pend {
			if len(p) == 1 {
				r, ok := vShWaitP(p[0].res)
				s.pend[h] = nil
				if !ok {
					return "hang"
				}
				if r != "data" {
					return "ok rel=h" + fmt.Sprint(h) + " odd:" + r
				}
				return fmt.Sprintf("ok rel=h%d", h)
			}
		}
	}
	return "ok"
}

func vShExec(o *vOut, toks []string) string {
	if len(toks) < 2 {
		return "bad-op"
	}
	if toks[1] == "new" {
		vShCur.end()
		vShCur = nil
		if len(toks) != 3 {
			return "bad-op"
		}
		s, out := vShNew(toks[2])
		vShCur = s
		return out
	}
	s := vShCur
	if s == nil {
		return "bad-op no-session"
	}
	hArg := func() (int, bool) {
		if len(toks) < 3 {
			return 0, false
		}
		var h int
		if _, err := fmt.Sscanf(toks[2], "%d", &h); err != nil || h < 0 || h >= len(s.handles) {
			return 0, false
		}
		return h, true
	}
	switch toks[1] {
	case "open":
		return s.open()
	case "feed":
		return s.feed()
	case "refuse": // refuse <c> on|off
		var c int
		if len(toks) != 4 || (toks[3] != "on" && toks[3] != "off") {
			return "bad-op"
		}
		if _, err := fmt.Sscanf(toks[2], "%d", &c); err != nil || c < 0 || c >= len(s.tconns) {
			return "bad-handle"
		}
		s.tconns[c].mu.Lock()
		s.tconns[c].refuse = toks[3] == "on"
		s.tconns[c].ever = s.tconns[c].ever || toks[3] == "on"
		s.tconns[c].mu.Unlock()
		return "ok"
	}
	h, ok := hArg()
	if !ok {
		return "bad-handle"
	}
	switch toks[1] {
	case "close":
		return s.closeH(h)
	case "read":
		return s.read(h)
	case "write", "writeap":
		udst := &net.UDPAddr{IP: net.IPv4(10, 0, 0, 2), Port: 6000}
		dst := net.Addr(udst)
		if s.kind == "tcp" {
			dst = s.raddr
		}
		unhealthy := false
		if len(toks) == 4 { // write <h> <c>: to connection c of the ufrag
			var c int
			if _, err := fmt.Sscanf(toks[3], "%d", &c); err != nil || c < 0 {
				return "bad-op"
			}
			if c < len(s.tconns) {
				dst = s.tconns[c].rAddr
				unhealthy = s.tconns[c].ever
			}
		}
		var err error
		if w, ok := s.handles[h].(AddrPortReaderWriter); ok && toks[1] == "writeap" {
			o.stat("shared.ops.write_through_WriteToAddrPort")
			_, err = w.WriteToAddrPort([]byte{9, 9}, udst.AddrPort())
		} else {
			_, err = s.handles[h].WriteTo([]byte{9, 9}, dst)
		}
		if r := vShClass(err); r == "err:timeout" && s.handleOpen(h) {
			// whose write deadline? (observation only; the verdict is the monitor's)
			held := false
			for g := range s.handles {
				if g != h && s.wdOwn[g] && s.handleOpen(g) {
					held = true
				}
			}
			switch {
			case s.wdOwn[h]:
				o.stat("shared.obs.write_timeout_under_own_deadline")
			case held:
				o.stat("shared.obs.write_timeout_under_deadline_held_by_open_sibling(shared by design)")
			case unhealthy:
				o.stat("shared.obs.write_timeout_on_a_connection_that_refused_deadline_calls(not healthy)")
			default:
				o.stat("shared.obs.write_timeout_under_deadline_of_no_open_handle")
			}
		}
		return vShClass(err)
	case "setrd":
		if len(toks) != 4 {
			return "bad-op"
		}
		t := time.Time{}
		if toks[3] == "past" {
			t = time.Unix(1, 0)
		}
		if toks[3] == "future" {
			// a deadline that does not expire during the session: a read parked under it must still be
			// released by the handle's own Close
			t = time.Now().Add(time.Hour)
		}
		err := s.handles[h].SetReadDeadline(t)
		if err == nil {
			s.rdPast[h] = toks[3] == "past"
		}
		return vShClass(err)
	case "setwd", "setd":
		t := time.Time{}
		switch {
		case len(toks) == 3 && toks[1] == "setwd":
		case len(toks) == 4 && toks[3] == "zero":
		case len(toks) == 4 && toks[3] == "past":
			t = time.Unix(1, 0)
		default:
			return "bad-op"
		}
		if toks[1] == "setwd" {
			err := s.handles[h].SetWriteDeadline(t)
			if err == nil || errors.Is(err, errVShRefused) { // refused by one connection: applied to the others
				s.wdOwn[h] = !t.IsZero()
			}
			return vShClass(err)
		}
		err := s.handles[h].SetDeadline(t)
		if err == nil || errors.Is(err, errVShRefused) {
			s.rdPast[h] = !t.IsZero()
			s.wdOwn[h] = !t.IsZero()
		}
		return vShClass(err)
	case "abort":
		return s.abortH(h)
	}
	return "bad-op"
}

// ---- generator -----------------------------------------------------------------------------

func vShGen(o *vOut, r *vRand, thorough bool, args []string, emit func(op string)) {
	kinds := []string{"fake", "udp", "tcp", "udpap", "tcpm3"}
	// boundary sessions first, for every kind
	for _, k := range kinds {
		for _, sess := range [][]string{
			{"open", "close 0", "close 0", "write 0", "read 0", "setrd 0 zero", "setwd 0"},
			{"open", "open", "close 0", "write 1", "setwd 1", "write 0", "close 0", "close 1", "write 1", "close 1"},
			{"open", "open", "read 0", "read 1", "close 0", "write 1", "feed", "read 1", "close 1"},
			{"open", "feed", "feed", "read 0", "open", "read 1", "read 1", "close 1", "read 0", "close 0"},
			{"open", "open", "open", "open", "open", "close 3", "close 3", "close 0", "close 4", "write 2", "close 1", "close 2", "close 2"},
			{"open", "read 0", "feed", "read 0", "read 0", "close 0"},
			{"open", "open", "setrd 0 future", "read 0", "close 0", "write 1", "read 1", "close 1"},
			{"open", "open", "setrd 1 future", "read 1", "read 0", "close 1", "feed", "close 0"},
		} {
			emit("shared new " + k)
			for _, op := range sess {
				emit("shared " + op)
			}
			o.stat("shared.sessions." + k)
			if k == "udpap" { // the same session with every write through WriteToAddrPort
				emit("shared new " + k)
				for _, op := range sess {
					emit("shared " + strings.Replace(op, "write ", "writeap ", 1))
				}
				o.stat("shared.sessions." + k)
			}
		}
		if !strings.HasPrefix(k, "tcp") {
			emit("shared new " + k)
			for _, op := range []string{"open", "open", "setrd 0 past", "read 0", "read 1", "feed", "setrd 0 zero", "close 1", "read 0", "close 0", "setrd 0 past"} {
				emit("shared " + op)
			}
		}
	}
	// deadline setters and the abortIO sequence on one handle while a sibling stays open (tcp first: the
	// underlying *tcpPacketConn forwards write deadlines to the connections shared by all handles)
	for _, k := range []string{"tcp", "udp", "fake", "udpap", "tcpm2"} {
		for _, sess := range [][]string{
			{"open", "open", "write 1", "abort 0", "write 1", "feed", "read 1", "read 1", "setwd 1 zero", "write 1", "close 1"},
			{"open", "abort 0", "write 0", "abort 0"},
			{"open", "open", "read 0", "read 1", "abort 0", "write 1", "abort 0", "open", "write 2", "close 1", "close 2"},
			{"open", "open", "open", "abort 1", "write 0", "write 2", "setwd 2 zero", "write 0", "close 0", "close 2"},
			{"open", "open", "setwd 0 past", "write 0", "write 1", "setwd 1 zero", "write 0", "write 1", "close 0", "write 1", "close 1"},
			{"open", "open", "setd 0 past", "read 0", "write 0", "write 1", "feed", "read 1", "setd 0 zero", "write 0", "read 0", "close 0", "close 1"},
			{"open", "open", "setrd 0 past", "read 0", "read 1", "write 0", "write 1", "close 0", "feed", "close 1"},
			{"open", "open", "setwd 0 past", "close 0", "write 1", "open", "write 2", "close 1", "close 2"},
			{"open", "open", "setd 1 past", "write 0", "close 1", "write 0", "setwd 0 past", "close 0"},
			{"open", "open", "open", "setwd 0 past", "setwd 1 past", "close 0", "write 2", "write 1", "setwd 1 zero", "write 1", "close 1", "write 2", "close 2"},
		} {
			emit("shared new " + k)
			for _, op := range sess {
				emit("shared " + op)
			}
			o.stat("shared.sessions." + k)
			o.stat("shared.sessions.deadline_boundary")
		}
	}
	// several TCP connections per ufrag, one of them refusing SetWriteDeadline (the fault "SetWriteDeadline fails" on
	// the TCP side): the deadline armed by a handle that goes away must be cleared from EVERY healthy connection -
	// all of them are written to afterwards, so the verdict does not depend on the order in which the mux visits them
	// (repeated: the refusing connection may still happen to be visited last)
	for round := 0; round < 6; round++ {
		k, bad := 8, 7-round // 7 healthy + 1 refusing
		if round >= 4 {
			k, bad = 2, round-4
		}
		all := func(h int) []string {
			var ops []string
			for c := 0; c < k; c++ {
				ops = append(ops, fmt.Sprintf("write %d %d", h, c))
			}
			return ops
		}
		refOn, refOff := fmt.Sprintf("refuse %d on", bad), fmt.Sprintf("refuse %d off", bad)
		for _, sess := range [][]string{
			// the connection starts refusing between the arming and the close of the arming handle
			append(append(append(append([]string{"open", "open"}, all(1)...), "setd 0 past", "write 1 0", refOn, "close 0"), all(1)...),
				refOff, "setwd 1 zero", fmt.Sprintf("write 1 %d", bad), "close 1"),
			// it refuses already when abortIO arms and clears
			append(append([]string{"open", "open", refOn, "abort 0"}, all(1)...), "open", "write 2 0", "close 1", "close 2"),
			// two arming handles, the refusing connection keeps the first deadline
			append(append(append(append([]string{"open", "open", "open", "setwd 0 past", refOn, "setwd 1 past", "close 0"}, all(2)...),
				"close 1"), all(2)...), refOff, "setd 2 zero", "write 2 0", fmt.Sprintf("write 2 %d", bad), "close 2"),
		} {
			emit(fmt.Sprintf("shared new tcpm%d", k))
			for _, op := range sess {
				emit("shared " + op)
			}
			o.stat("shared.sessions.tcpm")
			o.stat("shared.sessions.refusing_connection_boundary")
		}
	}
	n := 240
	if thorough {
		n = 28000
	}
	n = vEnvInt("VERIF_SH_N", n)
	for i := 0; i < n; i++ {
		k := kinds[i%len(kinds)]
		nconn := 0
		if k == "tcpm3" { // 2..8 scripted connections
			nconn = 2 + r.intn(7)
			k = fmt.Sprintf("tcpm%d", nconn)
			o.stat("shared.sessions.tcpm")
		} else {
			o.stat("shared.sessions." + k)
		}
		isTCP := strings.HasPrefix(k, "tcp")
		emit("shared new " + k)
		// the generator's own bookkeeping (only to keep sequences meaningful)
		var open []bool
		var pend []int
		var past []bool
		queue, nOpen, everOpened := 0, 0, false
		steps := 8 + r.intn(30)
		after := 0
		for st := 0; st < steps; st++ {
			allClosed := everOpened && nOpen == 0
			if allClosed {
				if after++; after > 3 {
					break
				}
			}
			c := r.intn(100)
			if c >= 18 && c < 40 && nOpen <= 2 && r.chance(1, 2) {
				c = 40 + r.intn(60) // keep sessions alive: fewer closes when few handles are open
			}
			switch {
			case (c < 18 || len(open) == 0) && !allClosed && len(open) < 8:
				emit("shared open")
				open = append(open, true)
				pend = append(pend, 0)
				past = append(past, false)
				nOpen++
				everOpened = true
			case len(open) == 0:
				continue
			case c < 40:
				h := r.intn(len(open))
				if r.chance(2, 3) { // prefer an open handle
					for t := 0; t < 4 && !open[h]; t++ {
						h = r.intn(len(open))
					}
				}
				if r.chance(1, 3) { // the handle goes away the way a candidate does
					emit(fmt.Sprintf("shared abort %d", h))
					o.stat("shared.ops.abort")
					if open[h] && nOpen > 1 {
						o.stat("shared.ops.abort_with_open_sibling")
					}
				} else {
					emit(fmt.Sprintf("shared close %d", h))
				}
				if open[h] {
					open[h] = false
					nOpen--
					pend[h] = 0
					if nOpen == 0 {
						queue = 0
					}
				}
				o.stat("shared.ops.close")
			case c < 60:
				h := r.intn(len(open))
				if open[h] && pend[h] >= 2 {
					continue
				}
				if isTCP && open[h] && past[h] && queue > 0 {
					continue // both select cases ready in tcpPacketConn.readFromContext: not deterministic
				}
				emit(fmt.Sprintf("shared read %d", h))
				if open[h] && nOpen > 0 {
					if queue > 0 {
						queue--
					} else if !past[h] {
						pend[h]++
					}
				}
				o.stat("shared.ops.read")
			case c < 75:
				if k == "udpap" && r.chance(1, 2) {
					emit(fmt.Sprintf("shared writeap %d", r.intn(len(open))))
				} else if nconn > 0 {
					emit(fmt.Sprintf("shared write %d %d", r.intn(len(open)), r.intn(nconn)))
				} else {
					emit(fmt.Sprintf("shared write %d", r.intn(len(open))))
				}
				o.stat("shared.ops.write")
			case c < 85:
				tot := 0
				for _, p := range pend {
					tot += p
				}
				emit("shared feed")
				if nOpen > 0 {
					if tot == 0 {
						queue++
					} else if tot == 1 {
						for h := range pend {
							pend[h] = 0
						}
					}
				}
				o.stat("shared.ops.feed")
			case c < 90:
				h := r.intn(len(open))
				v := "zero"
				if !isTCP && r.chance(1, 2) {
					v = "past"
				} else if r.chance(1, 2) {
					v = "future"
				}
				emit(fmt.Sprintf("shared setrd %d %s", h, v))
				if open[h] {
					past[h] = v == "past"
				}
				o.stat("shared.ops.setrd")
			case c < 94:
				h := r.intn(len(open))
				v := "zero"
				if !isTCP && r.chance(1, 2) {
					v = "past"
				}
				emit(fmt.Sprintf("shared setd %d %s", h, v))
				if open[h] {
					past[h] = v == "past"
				}
				o.stat("shared.ops.setd")
			default:
				if nconn > 0 && r.chance(1, 3) {
					v := "on"
					if r.chance(1, 3) {
						v = "off"
					}
					emit(fmt.Sprintf("shared refuse %d %s", r.intn(nconn), v))
					o.stat("shared.ops.refuse")
					continue
				}
				v := "zero"
				if r.chance(1, 2) {
					v = "past"
				}
				emit(fmt.Sprintf("shared setwd %d %s", r.intn(len(open)), v))
				o.stat("shared.ops.setwd")
			}
		}
		// close everything (some twice) so that every session ends with the last close
		for h := range open {
			if r.chance(1, 4) {
				emit(fmt.Sprintf("shared close %d", h))
			}
		}
		for _, h := range vPerm(r, len(open)) {
			emit(fmt.Sprintf("shared close %d", h))
		}
	}
	emit("shared new fake") // releases the last session's resources
}

func vPerm(r *vRand, n int) []int {
	p := make([]int, n)
	for i := range p {
		p[i] = i
	}
	for i := n - 1; i > 0; i-- {
		j := r.intn(i + 1)
		p[i], p[j] = p[j], p[i]
	}
	return p
}

func init() {
	vComponents["shared"] = &vComp{gen: vShGen, exec: vShExec}
}
