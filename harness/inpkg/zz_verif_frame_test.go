//go:build verif

package ice

// Correspondence component `frame` (property C14): readStreamingPacket / writeStreamingPacket and
// their users (tcpPacketConn, TCPMuxDefault.handleConn, activeTCPConn) driven through fake
// net.Conns whose Read returns exactly the scripted segments. Op vocabulary: see the header of
// lean/Driver/Framing.lean.

import (
	"bytes"
	"context"
	"encoding/hex"
	"errors"
	"fmt"
	"io"
	"net"
	"net/netip"
	"strconv"
	"strings"
	"sync"
	"time"

	"github.com/pion/logging"
	"github.com/pion/stun/v3"
)

func init() { vComponents["frame"] = &vComp{gen: vFrameGenOps, exec: vFrameExec} }

var (
	errVFrameConn    = errors.New("verif: connection reset")
	errVFrameRunaway = errors.New("verif-runaway-reads")
	// set when readStreamingPacket/writeStreamingPacket panicked on the harness goroutine: the
	// user-level ops (library goroutines, where a panic would kill the process) are then skipped
	vFrameSawPanic bool
	vFrameATCBails int
)

// vFrameConn is the fake net.Conn: one Read returns min(len(p), len(head segment)) bytes of the
// head segment; an empty segment is a Read returning (0, nil); after the last segment every Read
// fails with endErr. Every Read and Write is recorded.
type vFrameConn struct {
	mu       sync.Mutex
	segs     [][]byte
	endErr   error
	reads    [][2]int
	writes   [][]byte
	writeErr error
	closed   bool
	calls    int
	limit    int
	local    net.Addr
	remote   net.Addr
}

func (c *vFrameConn) Read(p []byte) (int, error) {
	c.mu.Lock()
	defer c.mu.Unlock()
	c.calls++
	if c.limit > 0 && c.calls > c.limit {
		// more Read calls than the stream can justify (e.g. zero-length Reads in a loop)
		c.reads = append(c.reads, [2]int{len(p), 0})
		return 0, errVFrameRunaway
	}
	if len(c.segs) == 0 {
		c.reads = append(c.reads, [2]int{len(p), 0})
		return 0, c.endErr
	}
	seg := c.segs[0]
	n := copy(p, seg)
	if n == len(seg) {
		c.segs = c.segs[1:]
	} else {
		c.segs[0] = seg[n:]
	}
	c.reads = append(c.reads, [2]int{len(p), n})
	return n, nil
}

func (c *vFrameConn) Write(p []byte) (int, error) {
	c.mu.Lock()
	defer c.mu.Unlock()
	c.writes = append(c.writes, append([]byte(nil), p...))
	if c.writeErr != nil {
		return 0, c.writeErr
	}
	return len(p), nil
}

func (c *vFrameConn) Close() error {
	c.mu.Lock()
	defer c.mu.Unlock()
	c.closed = true
	return nil
}
func (c *vFrameConn) isClosed() bool {
	c.mu.Lock()
	defer c.mu.Unlock()
	return c.closed
}
func (c *vFrameConn) LocalAddr() net.Addr {
	if c.local != nil {
		return c.local
	}
	return &net.TCPAddr{IP: net.IPv4(10, 0, 0, 1), Port: 4000}
}
func (c *vFrameConn) RemoteAddr() net.Addr {
	if c.remote != nil {
		return c.remote
	}
	return &net.TCPAddr{IP: net.IPv4(10, 0, 0, 2), Port: 5000}
}
func (c *vFrameConn) SetDeadline(time.Time) error      { return nil }
func (c *vFrameConn) SetReadDeadline(time.Time) error  { return nil }
func (c *vFrameConn) SetWriteDeadline(time.Time) error { return nil }

// vFrameBytes: generated payload, the same function as genBytes of lean/Driver/Framing.lean.
func vFrameBytes(seed, n int) []byte {
	b := make([]byte, n)
	for i := range b {
		b[i] = byte(seed + i*167 + (i/256)*59)
	}
	return b
}

func vFrameDigest(d []byte) string {
	if len(d) <= 8 {
		return "x" + hex.EncodeToString(d)
	}
	h := uint32(2166136261)
	for _, b := range d {
		h = (h ^ uint32(b)) * 16777619
	}
	return fmt.Sprintf("h%08x", h)
}

func vFrameFnvString(s string) uint32 {
	h := uint32(2166136261)
	for i := 0; i < len(s); i++ {
		h = (h ^ uint32(s[i])) * 16777619
	}
	return h
}

func vFramePieces(s string) ([]byte, error) {
	if s == "-" {
		return nil, nil
	}
	var out []byte
	two := func(t string) (int, int, error) {
		ab := strings.Split(t, ".")
		if len(ab) != 2 {
			return 0, 0, fmt.Errorf("bad piece")
		}
		a, e1 := strconv.Atoi(ab[0])
		b, e2 := strconv.Atoi(ab[1])
		if e1 != nil || e2 != nil {
			return 0, 0, fmt.Errorf("bad piece")
		}
		return a, b, nil
	}
	for _, p := range strings.Split(s, ",") {
		switch {
		case strings.HasPrefix(p, "f"):
			l, seed, err := two(p[1:])
			if err != nil {
				return nil, err
			}
			out = append(out, byte(l>>8), byte(l))
			out = append(out, vFrameBytes(seed, l)...)
		case strings.HasPrefix(p, "g"):
			l, seed, err := two(p[1:])
			if err != nil {
				return nil, err
			}
			out = append(out, vFrameBytes(seed, l)...)
		case strings.HasPrefix(p, "x"):
			b, err := hex.DecodeString(p[1:])
			if err != nil {
				return nil, err
			}
			out = append(out, b...)
		default:
			return nil, fmt.Errorf("bad piece")
		}
	}
	return out, nil
}

func vFrameCut(cuts []int, s []byte) [][]byte {
	allZero := true
	for _, c := range cuts {
		if c != 0 {
			allZero = false
		}
	}
	if allZero {
		if len(s) == 0 {
			return nil
		}
		return [][]byte{s}
	}
	var segs [][]byte
	for i := 0; len(s) > 0; i++ {
		c := cuts[i%len(cuts)]
		if c > len(s) {
			c = len(s)
		}
		segs = append(segs, s[:c:c])
		s = s[c:]
	}
	return segs
}

func vFrameStream(ps, keep, cuts string) ([][]byte, []byte, error) {
	s, err := vFramePieces(ps)
	if err != nil {
		return nil, nil, err
	}
	if keep != "all" {
		k, err := strconv.Atoi(keep)
		if err != nil {
			return nil, nil, err
		}
		if k < len(s) {
			s = s[:k]
		}
	}
	var cs []int
	for _, c := range strings.Split(cuts, ",") {
		v, err := strconv.Atoi(c)
		if err != nil || v < 0 {
			return nil, nil, fmt.Errorf("bad cuts")
		}
		cs = append(cs, v)
	}
	return vFrameCut(cs, s), s, nil
}

func vFrameEnd(s string) (error, bool) {
	switch s {
	case "eof":
		return io.EOF, true
	case "closed":
		return net.ErrClosed, true
	case "io":
		return errVFrameConn, true
	}
	return nil, false
}

func vFrameErrKind(err error) string {
	switch {
	case err == io.EOF: //nolint:errorlint
		return "e:eof"
	case errors.Is(err, net.ErrClosed):
		return "e:closed"
	case errors.Is(err, errVFrameConn):
		return "e:io"
	case errors.Is(err, io.ErrShortBuffer):
		return "short"
	}
	return "e?" + strings.NewReplacer(" ", "_", "\t", "_", "\n", "_", "|", "_", ":", "_").Replace(err.Error())
}

func vFrameReads(reads [][2]int) string {
	var sb strings.Builder
	mx := 0
	for i, r := range reads {
		if i > 0 {
			sb.WriteByte(' ')
		}
		sb.WriteString(strconv.Itoa(r[0]))
		sb.WriteByte('/')
		sb.WriteString(strconv.Itoa(r[1]))
		if r[0] > mx {
			mx = r[0]
		}
	}
	if len(reads) <= 64 {
		return sb.String()
	}
	return fmt.Sprintf("n=%d h=%08x max=%d", len(reads), vFrameFnvString(sb.String()), mx)
}

func vFrameCaps(s string) (int, int, bool) {
	ab := strings.Split(s, ":")
	if len(ab) != 2 {
		return 0, 0, false
	}
	a, e1 := strconv.Atoi(ab[0])
	b, e2 := strconv.Atoi(ab[1])
	if e1 != nil || e2 != nil || a > b || a < 0 {
		return 0, 0, false
	}
	return a, b, true
}

// vFrameReadAll calls readStreamingPacket until it fails.
func vFrameReadAll(o *vOut, blen, capacity int, endErr error, segs [][]byte, streamLen int) string {
	conn := &vFrameConn{segs: segs, endErr: endErr, limit: 2*streamLen + len(segs) + 16}
	buf := make([]byte, blen, capacity)
	var res []string
	for calls := 0; ; calls++ {
		if calls > streamLen/2+2 {
			res = append(res, "RUNAWAY")
			break
		}
		n, err := readStreamingPacket(conn, buf)
		if err != nil {
			k := vFrameErrKind(err)
			switch {
			case k == "short":
				k = "short:" + strconv.Itoa(n)
			case n != 0:
				k += "!n=" + strconv.Itoa(n)
			}
			o.stat("read.end." + strings.SplitN(strings.TrimPrefix(k, "e:"), ":", 2)[0])
			res = append(res, k)
			break
		}
		if n < 0 || n > capacity {
			res = append(res, "p?n="+strconv.Itoa(n))
			break
		}
		data := buf[:capacity][:n]
		res = append(res, fmt.Sprintf("p:%d:%s", n, vFrameDigest(data)))
	}
	o.statN("read.packets", len(res)-1)
	o.statN("read.conn_reads", len(conn.reads))
	return strings.Join(res, " ") + " | " + vFrameReads(conn.reads)
}

type vFrameListener struct {
	ch   chan struct{}
	once sync.Once
	addr net.Addr
}

func (l *vFrameListener) Accept() (net.Conn, error) { <-l.ch; return nil, net.ErrClosed }
func (l *vFrameListener) Close() error              { l.once.Do(func() { close(l.ch) }); return nil }
func (l *vFrameListener) Addr() net.Addr            { return l.addr }

func vFrameQuietLogger() logging.LeveledLogger {
	lf := logging.NewDefaultLoggerFactory()
	lf.DefaultLogLevel = logging.LogLevelDisabled
	return lf.NewLogger("verif")
}

// vFrameTPCBuf: one packet queued in a tcpPacketConn, read through ReadFrom with a caller buffer of length bl and
// capacity cp.  The caller sees b[:len(b)] only: a packet that does not fit its LENGTH must not be handed over in part.
func vFrameTPCBuf(o *vOut, bl, cp, pl, seed int) string {
	conn := &vFrameConn{}
	t := newTCPPacketConn(tcpPacketParams{ReadBuffer: 8, LocalAddr: conn.LocalAddr(), Logger: vFrameQuietLogger()})
	defer func() { _ = t.Close() }()
	pkt := vFrameBytes(seed, pl)
	t.recvChan <- streamingPacket{Data: pkt, RAddr: conn.RemoteAddr()}
	b := make([]byte, bl, cp)
	ctx, cancel := context.WithTimeout(context.Background(), 5*time.Second)
	defer cancel()
	n, _, err := t.readFromContext(ctx, b)
	if err != nil {
		return fmt.Sprintf("n=%d e=%s d=%s", n, vFrameErrKind(err), vFrameDigest(nil))
	}
	m := n
	if m > len(b) {
		m = len(b)
		o.stat("tpcbuf.n_beyond_len")
	}
	return fmt.Sprintf("n=%d e=ok d=%s", n, vFrameDigest(b[:m]))
}

// vFrameDrain reads from a tcpPacketConn until the first error.
func vFrameDrain(t *tcpPacketConn, maxPackets int) []string {
	var res []string
	buf := make([]byte, receiveMTU)
	for i := 0; ; i++ {
		if i > maxPackets {
			res = append(res, "RUNAWAY")
			break
		}
		ctx, cancel := context.WithTimeout(context.Background(), 5*time.Second)
		n, _, err := t.readFromContext(ctx, buf)
		cancel()
		if err != nil {
			k := vFrameErrKind(err)
			if k == "short" {
				k = "short:" + strconv.Itoa(n)
			} else if errors.Is(err, context.DeadlineExceeded) {
				k = "HANG"
			}
			res = append(res, k)
			break
		}
		res = append(res, fmt.Sprintf("p:%d:%s", n, vFrameDigest(buf[:n])))
	}
	return res
}

func vFrameTPC(o *vOut, endErr error, segs [][]byte, streamLen int) string {
	conn := &vFrameConn{segs: segs, endErr: endErr, limit: 2*streamLen + len(segs) + 16}
	t := newTCPPacketConn(tcpPacketParams{ReadBuffer: 8, LocalAddr: conn.LocalAddr(), Logger: vFrameQuietLogger()})
	if err := t.AddConn(conn, nil); err != nil {
		return "adderr"
	}
	res := vFrameDrain(t, streamLen/2+2)
	closed := conn.isClosed()
	_ = t.Close()
	o.statN("tpc.packets", len(res)-1)
	conn.mu.Lock()
	reads := vFrameReads(conn.reads)
	conn.mu.Unlock()
	return strings.Join(res, " ") + " | " + reads + " | closed=" + strconv.FormatBool(closed)
}

const vFrameUfrag = "vfrag"

// vFrameFirstSTUN builds a STUN binding request with USERNAME whose encoding has `size` bytes
// (size = 20 + 4k, at least 36).
func vFrameFirstSTUN(size int) []byte {
	user := vFrameUfrag + ":peer" // 10 bytes -> 4 + 12 = 16 bytes of attribute
	pad := size - 20 - 16 - 4
	setters := []stun.Setter{stun.BindingRequest, stun.NewTransactionIDSetter([stun.TransactionIDSize]byte{1, 2, 3}), stun.NewUsername(user)}
	if pad >= 0 {
		setters = append(setters, stun.RawAttribute{Type: stun.AttrType(0xC0F1), Value: make([]byte, pad)})
	}
	m, err := stun.Build(setters...)
	if err != nil {
		panic(err)
	}
	return m.Raw
}

func vFrameMux(o *vOut, endErr error, segs [][]byte, streamLen int) string {
	local := &net.TCPAddr{IP: net.IPv4(10, 0, 0, 1), Port: 4000}
	ln := &vFrameListener{ch: make(chan struct{}), addr: local}
	m := NewTCPMuxDefault(TCPMuxParams{Listener: ln, Logger: vFrameQuietLogger(), ReadBufferSize: 8})
	defer func() { _ = m.Close() }()
	pc, err := m.GetConnByUfrag(vFrameUfrag, false, local.IP)
	if err != nil {
		return "getconn-error"
	}
	defer func() { _ = pc.Close() }()
	m.mu.Lock()
	t, ok := m.getConn(vFrameUfrag, false, local.IP)
	m.mu.Unlock()
	if !ok {
		return "getconn-missing"
	}
	conn := &vFrameConn{segs: segs, endErr: endErr, limit: 2*streamLen + len(segs) + 16, local: local}
	m.handleConn(conn)
	// Rejected by handleConn <=> the conn was closed synchronously and nothing was queued. (An accepted
	// conn queues the first packet BEFORE its reader can fail and close it, and nobody has drained yet.)
	if conn.isClosed() && len(t.recvChan) == 0 {
		o.stat("mux.closed")
		return "closed"
	}
	res := vFrameDrain(t, streamLen/2+2)
	o.statN("mux.packets", len(res)-1)
	return strings.Join(res, " ") + " | closed=" + strconv.FormatBool(conn.isClosed())
}

// vFrameCount: how many packets a correct reader with an 8192-byte buffer delivers from s (used
// only as the WAIT condition of the real-socket run below; the comparison is made by the driver).
func vFrameCount(s []byte) int {
	n := 0
	for len(s) >= 2 {
		l := int(s[0])<<8 | int(s[1])
		if l > receiveMTU || len(s)-2 < l {
			break
		}
		n++
		s = s[2+l:]
	}
	return n
}

// vFrameATC drives activeTCPConn over a loopback TCP connection: the peer writes the segments one
// by one (the kernel may still coalesce them: the result must not depend on it) and closes.
func vFrameATC(o *vOut, segs [][]byte, flat []byte) string {
	ln, err := net.Listen("tcp", "127.0.0.1:0") //nolint:noctx
	if err != nil {
		return "skip"
	}
	defer func() { _ = ln.Close() }()
	ra := netip.MustParseAddrPort(ln.Addr().String())
	ctx, cancel := context.WithCancel(context.Background())
	defer cancel()
	a := newActiveTCPConn(ctx, "127.0.0.1:0", ra, vFrameQuietLogger())
	defer func() { _ = a.Close() }()
	_ = ln.(*net.TCPListener).SetDeadline(time.Now().Add(5 * time.Second))
	srv, err := ln.Accept()
	if err != nil {
		return "skip"
	}
	if tc, ok := srv.(*net.TCPConn); ok {
		_ = tc.SetNoDelay(true)
	}
	// The connection is used in BOTH directions: between the inbound segments the local side sends packets of its
	// own (the peer drains them), so a frame that is still being received shares the connection's lifetime with
	// outbound traffic - what is delivered must not depend on it.
	drained := make(chan struct{})
	go func() {
		defer close(drained)
		sink := make([]byte, 4096)
		for {
			if _, err := srv.Read(sink); err != nil {
				return
			}
		}
	}()
	out := bytes.Repeat([]byte{0xa7}, 700)
	for i, s := range segs {
		if len(s) == 0 {
			continue
		}
		if _, err := srv.Write(s); err != nil {
			break
		}
		if i < 6 {
			_, _ = a.WriteTo(out, srv.LocalAddr())
			o.stat("atc.local_writes")
			time.Sleep(200 * time.Microsecond)
		}
	}
	if tc, ok := srv.(*net.TCPConn); ok {
		_ = tc.CloseWrite() // FIN after the data: the reader sees every byte, then io.EOF
	}
	time.AfterFunc(2*time.Millisecond, func() { _ = srv.Close() })
	// Wait until the expected number of packets is queued; a reader that delivers fewer is given up
	// on once its queue has been stable for 400 ms (or after 3 s).
	want := vFrameCount(flat)
	deadline := time.Now().Add(3 * time.Second)
	window := 400 * time.Millisecond
	if vFrameATCBails >= 8 {
		window = 30 * time.Millisecond // the reader is evidently broken; do not spend minutes on it
	}
	last, lastChange := a.readBuffer.Count(), time.Now()
	for last < want && time.Now().Before(deadline) && time.Since(lastChange) < window {
		time.Sleep(200 * time.Microsecond)
		if c := a.readBuffer.Count(); c != last {
			last, lastChange = c, time.Now()
		}
	}
	if last < want {
		vFrameATCBails++
	}
	time.Sleep(3 * time.Millisecond) // grace: a wrong reader would deliver extra packets now
	var res []string
	buf := make([]byte, receiveMTU)
	for a.readBuffer.Count() > 0 {
		n, _, err := a.ReadFrom(buf)
		if err != nil {
			res = append(res, vFrameErrKind(err))
			break
		}
		res = append(res, fmt.Sprintf("p:%d:%s", n, vFrameDigest(buf[:n])))
	}
	o.statN("atc.packets", len(res))
	return strings.Join(res, " ")
}

func vFrameWrite(o *vOut, l, seed int, mode string) string {
	pkt := vFrameBytes(seed, l)
	conn := &vFrameConn{}
	if mode == "fail" {
		conn.writeErr = errVFrameConn
	}
	var n int
	var err error
	switch mode {
	case "ok", "fail":
		n, err = writeStreamingPacket(conn, pkt)
	case "tpc":
		t := newTCPPacketConn(tcpPacketParams{ReadBuffer: 8, LocalAddr: conn.LocalAddr(), Logger: vFrameQuietLogger()})
		conn.endErr = io.EOF
		// the reader goroutine ends at once (empty stream); WriteTo must still find the connection,
		// so the conn is registered by hand exactly as AddConn does for an unbuffered conn
		t.mu.Lock()
		t.conns[conn.RemoteAddr().String()] = conn
		t.mu.Unlock()
		n, err = t.WriteTo(pkt, conn.RemoteAddr())
		t.mu.Lock()
		delete(t.conns, conn.RemoteAddr().String())
		t.mu.Unlock()
		_ = t.Close()
	case "tpcb":
		// the same through the buffered write path (TCPMux WriteBufferSize > 0): WriteTo queues the frame
		// in bufferedConn, its writeProcess goroutine drains it to the connection
		t := newTCPPacketConn(tcpPacketParams{ReadBuffer: 8, LocalAddr: conn.LocalAddr(), Logger: vFrameQuietLogger()})
		conn.endErr = io.EOF
		bc := newBufferedConn(conn, 4*1024*1024, vFrameQuietLogger())
		t.mu.Lock()
		t.conns[conn.RemoteAddr().String()] = bc
		t.mu.Unlock()
		n, err = t.WriteTo(pkt, conn.RemoteAddr())
		wait := 250 * time.Millisecond
		if err != nil {
			wait = 5 * time.Millisecond
		} else if l > receiveMTU {
			wait = 40 * time.Millisecond // expected to be dropped by the drain: nothing will come
		}
		for dl := time.Now().Add(wait); time.Now().Before(dl); time.Sleep(100 * time.Microsecond) {
			conn.mu.Lock()
			got := len(conn.writes)
			conn.mu.Unlock()
			if got > 0 {
				time.Sleep(time.Millisecond) // a wrong drain would issue further writes now
				break
			}
		}
		t.mu.Lock()
		delete(t.conns, conn.RemoteAddr().String())
		t.mu.Unlock()
		_ = bc.Close()
		_ = t.Close()
		conn.mu.Lock()
		defer conn.mu.Unlock()
	default:
		return "bad-op"
	}
	ek := "none"
	if err != nil {
		if errors.Is(err, errVFrameConn) {
			ek = "io"
		} else {
			ek = "rejected"
		}
	}
	var all []byte
	for _, w := range conn.writes {
		all = append(all, w...)
	}
	hdr, body := "-", []byte(nil)
	if len(all) > 0 {
		k := 2
		if len(all) < 2 {
			k = len(all)
		}
		hdr = hex.EncodeToString(all[:k])
		body = all[k:]
	}
	switch {
	case l > 65535:
		o.stat("write.toolong." + mode)
	default:
		o.stat("write.fits." + mode)
	}
	return fmt.Sprintf("n=%d err=%s writes=%d hdr=%s body=%d:%s", n, ek, len(conn.writes), hdr, len(body), vFrameDigest(body))
}

func vFrameExec(o *vOut, t []string) string {
	if len(t) < 2 {
		return "bad-op"
	}
	defer func() {
		if p := recover(); p != nil {
			vFrameSawPanic = true
			panic(p)
		}
	}()
	if vFrameSawPanic && (t[1] == "tpc" || t[1] == "atc" || t[1] == "mux" || (t[1] == "write" && len(t) == 5 && (t[4] == "tpc" || t[4] == "tpcb"))) {
		return "skipped-after-panic-in-framing-function"
	}
	switch {
	case t[1] == "write" && len(t) == 5:
		l, e1 := strconv.Atoi(t[2])
		seed, e2 := strconv.Atoi(t[3])
		if e1 != nil || e2 != nil || l < 0 {
			return "bad-op"
		}
		return vFrameWrite(o, l, seed, t[4])
	case t[1] == "tpcbuf" && len(t) == 6:
		bl, e1 := strconv.Atoi(t[2])
		cp, e2 := strconv.Atoi(t[3])
		pl, e3 := strconv.Atoi(t[4])
		seed, e4 := strconv.Atoi(t[5])
		if e1 != nil || e2 != nil || e3 != nil || e4 != nil || bl < 0 || cp < bl || pl < 0 {
			return "bad-op"
		}
		return vFrameTPCBuf(o, bl, cp, pl, seed)
	case t[1] == "read" && len(t) == 5:
		blen, capacity, ok := vFrameCaps(t[2])
		endErr, ok2 := vFrameEnd(t[3])
		if !ok || !ok2 {
			return "bad-op"
		}
		var segs [][]byte
		total := 0
		if t[4] != "-" {
			for _, h := range strings.Split(t[4], ",") {
				if h == "_" {
					segs = append(segs, []byte{})
					continue
				}
				b, err := hex.DecodeString(h)
				if err != nil {
					return "bad-op"
				}
				segs = append(segs, b)
				total += len(b)
			}
		}
		o.stat("op.read")
		return vFrameReadAll(o, blen, capacity, endErr, segs, total)
	case t[1] == "readp" && len(t) == 7:
		blen, capacity, ok := vFrameCaps(t[2])
		endErr, ok2 := vFrameEnd(t[3])
		segs, flat, err := vFrameStream(t[4], t[5], t[6])
		if !ok || !ok2 || err != nil {
			return "bad-op"
		}
		o.stat("op.readp")
		return vFrameReadAll(o, blen, capacity, endErr, segs, len(flat))
	case t[1] == "tpc" && len(t) == 6:
		endErr, ok := vFrameEnd(t[2])
		segs, flat, err := vFrameStream(t[3], t[4], t[5])
		if !ok || err != nil {
			return "bad-op"
		}
		o.stat("op.tpc")
		return vFrameTPC(o, endErr, segs, len(flat))
	case t[1] == "atc" && len(t) == 5:
		segs, flat, err := vFrameStream(t[2], t[3], t[4])
		if err != nil {
			return "bad-op"
		}
		o.stat("op.atc")
		return vFrameATC(o, segs, flat)
	case t[1] == "mux" && len(t) == 7:
		endErr, ok := vFrameEnd(t[2])
		ps := "x" + t[3]
		if t[4] != "-" {
			ps += "," + t[4]
		}
		segs, flat, err := vFrameStream(ps, t[5], t[6])
		if !ok || err != nil {
			return "bad-op"
		}
		o.stat("op.mux")
		return vFrameMux(o, endErr, segs, len(flat))
	}
	return "bad-op"
}

// ---------------------------------------------------------------------------------------------
// generators
// ---------------------------------------------------------------------------------------------

var vFrameBoundaries = []int{0, 1, 2, 3, 255, 256, 257, 511, 512, 513, 8191, 8192, 8193, 65534, 65535}

// vFrameCompositions calls f with every composition (ordered split into positive parts) of n.
func vFrameCompositions(n int, f func(parts []int)) {
	if n == 0 {
		f(nil)
		return
	}
	for mask := 0; mask < 1<<(n-1); mask++ {
		var parts []int
		cur := 1
		for i := 0; i < n-1; i++ {
			if mask&(1<<i) != 0 {
				parts = append(parts, cur)
				cur = 1
			} else {
				cur++
			}
		}
		parts = append(parts, cur)
		f(parts)
	}
}

// exhaustive part: every sequence of <= maxPkts packets with lengths in lens (payload bytes from the
// two symbols 00/01, so that payloads look like headers), every prefix of the resulting stream
// (for sequences of <= prefixesUpTo packets; else the whole stream), every segmentation of it; with
// withEmpty also every way of putting a Read that returns (0, nil) in front of a segment.
func vFrameExhaustive(o *vOut, emit func(string), lens []int, maxPkts int, caps []int, prefixesUpTo int, ends []string, withEmpty bool) {
	seqs := [][]int{nil}
	for k, layer := 1, [][]int{nil}; k <= maxPkts; k++ {
		var next [][]int
		for _, s := range layer {
			for _, l := range lens {
				next = append(next, append(append([]int{}, s...), l))
			}
		}
		seqs = append(seqs, next...)
		layer = next
	}
	cnt := 0
	for _, seq := range seqs {
		var stream []byte
		for j, l := range seq {
			stream = append(stream, 0, byte(l))
			for i := 0; i < l; i++ {
				stream = append(stream, byte((i+j+l)%2))
			}
		}
		keeps := []int{len(stream)}
		if len(seq) <= prefixesUpTo {
			keeps = keeps[:0]
			for k := 0; k <= len(stream); k++ {
				keeps = append(keeps, k)
			}
		}
		for _, k := range keeps {
			s := stream[:k]
			vFrameCompositions(len(s), func(parts []int) {
				hs := make([]string, 0, len(parts))
				off := 0
				for _, p := range parts {
					hs = append(hs, hex.EncodeToString(s[off:off+p]))
					off += p
				}
				variants := 1
				if withEmpty {
					variants = 1 << len(hs)
				}
				for v := 0; v < variants; v++ {
					segs := "-"
					if len(hs) > 0 {
						var sb strings.Builder
						for i, h := range hs {
							if i > 0 {
								sb.WriteByte(',')
							}
							if v&(1<<i) != 0 {
								sb.WriteString("_,")
							}
							sb.WriteString(h)
						}
						segs = sb.String()
					}
					for _, c := range caps {
						cnt++
						emit(fmt.Sprintf("frame read %d:%d %s %s", c, c, ends[cnt%len(ends)], segs))
					}
				}
			})
		}
	}
	o.statN("gen.exhaustive_small", cnt)
}

func vFramePick(r *vRand, xs []int) int { return xs[r.intn(len(xs))] }

// a packet length: boundaries first, then small, then anywhere in 0..max
func vFrameLen(r *vRand, max int) int {
	var l int
	switch r.intn(10) {
	case 0, 1, 2:
		l = vFramePick(r, vFrameBoundaries)
	case 3, 4, 5, 6:
		l = r.intn(40)
	case 7, 8:
		l = r.intn(1500)
	default:
		l = r.intn(65536)
	}
	if l > max {
		l = r.intn(max + 1)
	}
	return l
}

func vFrameCuts(r *vRand, streamLen int) string {
	switch r.intn(12) {
	case 0:
		return "1" // every byte its own Read
	case 1:
		return "1000000" // everything coalesced into one segment
	case 2:
		return fmt.Sprintf("1,1,%d", 1+r.intn(3000)) // header split in the middle
	case 3:
		return fmt.Sprintf("1,%d", 1+r.intn(70000))
	case 4:
		return fmt.Sprintf("3,%d", 1+r.intn(9000)) // header + first body byte together
	case 5:
		return "2" // header alone, body in pairs
	case 6:
		return fmt.Sprintf("0,1,0,0,%d", 1+r.intn(500)) // Reads returning (0, nil) in between
	case 7:
		return "1460" // MSS-like
	default:
		n := 1 + r.intn(6)
		var cs []string
		for i := 0; i < n; i++ {
			switch r.intn(4) {
			case 0:
				cs = append(cs, strconv.Itoa(1+r.intn(3)))
			case 1:
				cs = append(cs, strconv.Itoa(1+r.intn(64)))
			case 2:
				cs = append(cs, strconv.Itoa(1+r.intn(2000)))
			default:
				cs = append(cs, strconv.Itoa(1+r.intn(streamLen+2)))
			}
		}
		return strings.Join(cs, ",")
	}
}

var vFrameEnds = []string{"eof", "eof", "closed", "io"}

// one structured random stream: returns pieces, total length, the packet lengths used
func vFrameRandStream(r *vRand, maxLen, maxPkts int) (string, int, []int) {
	n := r.intn(maxPkts + 1)
	var ps []string
	var lens []int
	total := 0
	for i := 0; i < n; i++ {
		l := vFrameLen(r, maxLen)
		ps = append(ps, fmt.Sprintf("f%d.%d", l, r.intn(256)))
		lens = append(lens, l)
		total += 2 + l
	}
	// now and then: hostile tail (a header announcing more than follows, raw garbage)
	switch r.intn(8) {
	case 0:
		ps = append(ps, "x"+hex.EncodeToString([]byte{byte(r.intn(256)), byte(r.intn(256))}))
		total += 2
	case 1:
		g := r.intn(300)
		ps = append(ps, fmt.Sprintf("g%d.%d", g, r.intn(256)))
		total += g
	case 2:
		ps = append(ps, "xffff")
		total += 2
	}
	if len(ps) == 0 {
		return "-", 0, nil
	}
	return strings.Join(ps, ","), total, lens
}

// vFrameOversizeMid inserts, at a random position of the stream, a frame the 8192-byte readers cannot take:
// either a complete frame of 8193 / 9000 bytes (pseudo-random body) or only the 2-byte header of one
// (8193..65535), so that the well-formed frames that follow stand where its body would be.  A reader that
// does not stop at the oversized frame delivers packets that were never sent.
func vFrameOversizeMid(r *vRand, ps string, total int) (string, int) {
	var parts []string
	if ps != "-" {
		parts = strings.Split(ps, ",")
	}
	var ins string
	if r.chance(1, 3) {
		l := vFramePick(r, []int{8193, 9000})
		ins = fmt.Sprintf("f%d.%d", l, r.intn(256))
		total += 2 + l
	} else {
		l := vFramePick(r, []int{8193, 8194, 9000, 16384, 65535, 8193 + r.intn(57342)})
		ins = "x" + hex.EncodeToString([]byte{byte(l >> 8), byte(l)})
		total += 2
	}
	at := r.intn(len(parts) + 1)
	out := append(append(append([]string{}, parts[:at]...), ins), parts[at:]...)

	return strings.Join(out, ","), total
}

func vFrameKeep(r *vRand, total int) string {
	if total == 0 || r.chance(3, 5) {
		return "all"
	}
	switch r.intn(3) {
	case 0:
		return strconv.Itoa(total - 1)
	case 1:
		return strconv.Itoa(total - 1 - r.intn(min(total, 4)))
	}
	return strconv.Itoa(r.intn(total + 1))
}

func vFrameCapFor(r *vRand, lens []int) int {
	switch r.intn(6) {
	case 0:
		return vFramePick(r, vFrameBoundaries)
	case 1:
		return r.intn(65536)
	case 2:
		return 65535
	default:
		if len(lens) == 0 {
			return r.intn(64)
		}
		l := lens[r.intn(len(lens))]
		c := l + r.intn(3) - 1
		if r.chance(1, 2) {
			mx := 0
			for _, x := range lens {
				if x > mx {
					mx = x
				}
			}
			c = mx + r.intn(2)
		}
		if c < 0 {
			c = 0
		}
		return c
	}
}

func vFrameGenOps(o *vOut, r *vRand, thorough bool, _ []string, emit func(string)) {
	// ---- 1. writer: every boundary, both sides of the 16-bit limit (F4), random ----
	wl := append([]int{}, vFrameBoundaries...)
	wl = append(wl, 65536, 65537, 70000, 131071, 131072, 200000)
	nw := 300
	if thorough {
		nw = 6000
	}
	for i := 0; i < nw; i++ {
		if r.chance(1, 6) {
			wl = append(wl, 65536+r.intn(140000))
		} else {
			wl = append(wl, vFrameLen(r, 65535))
		}
	}
	for i, l := range wl {
		seed := r.intn(256)
		emit(fmt.Sprintf("frame write %d %d ok", l, seed))
		if i < len(vFrameBoundaries)+6 || i%4 == 0 {
			emit(fmt.Sprintf("frame write %d %d fail", l, seed))
			emit(fmt.Sprintf("frame write %d %d tpc", l, seed))
			// the buffered path: delivery is claimed for packets up to the receive MTU; a longer one is dropped by the
			// drain (tolerated), but must never reach the connection as a partial frame
			emit(fmt.Sprintf("frame write %d %d tpcb", l, seed))
		}
	}

	// ---- 2. exhaustive small domain ----
	ends3 := []string{"eof", "closed", "io"}
	if thorough {
		vFrameExhaustive(o, emit, []int{0, 1, 2, 3}, 3, []int{0, 1, 2, 3, 4}, 3, ends3, false)
		vFrameExhaustive(o, emit, []int{0, 1, 2}, 4, []int{2}, 0, ends3, false)
		vFrameExhaustive(o, emit, []int{0, 1, 2, 3}, 2, []int{3}, 2, ends3, true)
	} else {
		vFrameExhaustive(o, emit, []int{0, 1, 2, 3}, 3, []int{1, 3}, 2, ends3, false)
		vFrameExhaustive(o, emit, []int{0, 1, 2}, 2, []int{2}, 1, ends3, true)
	}

	// ---- 3. hand-picked streams ----
	for _, c := range []string{"0:0", "0:1", "2:2", "0:8192", "8192:8192", "100:65535"} {
		for _, e := range []string{"eof", "io"} {
			emit(fmt.Sprintf("frame read %s %s -", c, e))                 // empty stream
			emit(fmt.Sprintf("frame read %s %s 00", c, e))                // half a header
			emit(fmt.Sprintf("frame read %s %s _,00,_,_,00,_", c, e))     // (0,nil) reads around a header of an empty packet
			emit(fmt.Sprintf("frame read %s %s 0000,0000,00,00", c, e))   // empty packets
			emit(fmt.Sprintf("frame read %s %s ffff", c, e))              // largest announced length, no body
			emit(fmt.Sprintf("frame read %s %s ff,ff,0102", c, e))        //
			emit(fmt.Sprintf("frame read %s %s 000201", c, e))            // body one short
			emit(fmt.Sprintf("frame read %s %s 0001,aa0001,bb00,01cc", c, e)) // coalesced header of the next frame
		}
	}
	for _, l := range vFrameBoundaries {
		for _, d := range []int{-1, 0, 1} {
			c := l + d
			if c < 0 || c > 65535 {
				continue
			}
			for _, cuts := range []string{"1000000", "1,1,1000000", "1", "2,1", "3"} {
				if cuts == "1" && l > 9000 && !thorough {
					continue
				}
				emit(fmt.Sprintf("frame readp %d:%d eof f%d.7,f1.9 all %s", c, c, l, cuts))
				emit(fmt.Sprintf("frame readp %d:%d io f%d.7 %d %s", c/2, c, l, 2+l-1+d, cuts)) // keep: one short / exact / beyond
			}
		}
	}

	// ---- 4. random structured + garbage streams through readStreamingPacket ----
	nr, big := 4000, 40
	if thorough {
		nr, big = 200000, 12000
	}
	for i := 0; i < nr; i++ {
		maxLen := 2000
		if i < big*4 && i%4 == 0 {
			maxLen = 65535
		}
		ps, total, lens := vFrameRandStream(r, maxLen, 5)
		c := vFrameCapFor(r, lens)
		bl := c
		if r.chance(1, 4) {
			bl = r.intn(c + 1)
		}
		emit(fmt.Sprintf("frame readp %d:%d %s %s %s %s", bl, c, vFramePick2(r, vFrameEnds), ps, vFrameKeep(r, total), vFrameCuts(r, total)))
	}
	for _, pl := range []int{0, 1, 2, 7, 8, 9, 100, 1200, 8191, 8192} { // caller buffers around the packet length, len <= cap
		for _, d := range []int{-9, -1, 0, 1, 50} {
			for _, extra := range []int{0, 1, 64, 9000} {
				if bl := pl + d; bl >= 0 {
					emit(fmt.Sprintf("frame tpcbuf %d %d %d %d", bl, bl+extra, pl, r.intn(250)))
				}
			}
		}
	}
	ng := 2000
	if thorough {
		ng = 60000
	}
	for i := 0; i < ng; i++ { // arbitrary garbage, explicit segments
		n := r.intn(24)
		var hs []string
		for j := 0; j < n; j++ {
			if r.chance(1, 10) {
				hs = append(hs, "_")
				continue
			}
			b := make([]byte, 1+r.intn(5))
			for k := range b {
				if r.chance(1, 2) {
					b[k] = byte(r.intn(4)) // small values: plausible headers
				} else {
					b[k] = byte(r.intn(256))
				}
			}
			hs = append(hs, hex.EncodeToString(b))
		}
		segs := "-"
		if len(hs) > 0 {
			segs = strings.Join(hs, ",")
		}
		c := r.intn(8)
		if r.chance(1, 4) {
			c = r.intn(65536)
		}
		emit(fmt.Sprintf("frame read %d:%d %s %s", c, c, vFramePick2(r, vFrameEnds), segs))
	}
	for i := 0; i < ng/3; i++ { // big garbage
		g := r.intn(5000)
		c := vFramePick(r, []int{0, 1, 255, 512, 8192, 65535})
		emit(fmt.Sprintf("frame readp %d:%d %s g%d.%d all %s", c, c, vFramePick2(r, vFrameEnds), g, r.intn(256), vFrameCuts(r, g)))
	}

	// ---- 5. users: tcpPacketConn (AddConn/startReading/ReadFrom) ----
	nt := 1500
	if thorough {
		nt = 50000
	}
	for i := 0; i < nt; i++ {
		maxLen := 1200
		if i%5 == 0 {
			maxLen = 9000 // around the 8192-byte reader buffer
		}
		ps, total, _ := vFrameRandStream(r, maxLen, 6)
		if i%9 == 0 {
			l := vFramePick(r, []int{8191, 8192, 8193, 65535})
			ps2 := fmt.Sprintf("f%d.%d", l, r.intn(256))
			if ps == "-" {
				ps = ps2
			} else {
				ps += "," + ps2
			}
			total += 2 + l
		}
		if i%11 == 4 {
			ps, total = vFrameOversizeMid(r, ps, total)
		}
		emit(fmt.Sprintf("frame tpc %s %s %s %s", vFramePick2(r, vFrameEnds), ps, vFrameKeep(r, total), vFrameCuts(r, total)))
	}

	// ---- 6. users: TCPMuxDefault.handleConn (first frame, 512-byte buffer) then startReading ----
	nm := 600
	if thorough {
		nm = 20000
	}
	sizes := []int{36, 40, 100, 508, 512, 516, 520, 1000}
	for i := 0; i < nm; i++ {
		first := vFrameFirstSTUN(sizes[i%len(sizes)])
		fh := hex.EncodeToString(append([]byte{byte(len(first) >> 8), byte(len(first))}, first...))
		ps, total, _ := vFrameRandStream(r, 1200, 4)
		if i%6 == 5 {
			ps, total = vFrameOversizeMid(r, ps, total)
		}
		total += len(first) + 2
		keep := vFrameKeep(r, total)
		if i%7 == 3 {
			keep = strconv.Itoa(r.intn(len(first) + 3)) // truncated inside the first frame
		}
		emit(fmt.Sprintf("frame mux %s %s %s %s %s", vFramePick2(r, vFrameEnds), fh, ps, keep, vFrameCuts(r, total)))
	}

	// ---- 7. users: activeTCPConn over loopback ----
	na := 80
	if thorough {
		na = 4000
	}
	for i := 0; i < na; i++ {
		maxLen := 1200
		if i%4 == 0 {
			maxLen = 8192
		}
		ps, total, _ := vFrameRandStream(r, maxLen, 6)
		if i%5 == 2 {
			ps, total = vFrameOversizeMid(r, ps, total)
		}
		emit(fmt.Sprintf("frame atc %s %s %s", ps, vFrameKeep(r, total), vFrameCuts(r, total)))
	}
}

func vFramePick2(r *vRand, xs []string) string { return xs[r.intn(len(xs))] }
