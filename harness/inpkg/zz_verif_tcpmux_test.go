//go:build verif

// Correspondence harness of property C15 (TCP mux): the real TCPMuxDefault / tcpPacketConn /
// MultiTCPMuxDefault driven, one operation per line, inside a testing/synctest bubble (virtual
// clock, deterministic quiescence) with a FAKE net.Listener and scripted fake net.Conn clients.
// See /verif/notes/C15.md and /verif/lean/IceModel/TcpMux.lean for the operation vocabulary.
package ice

import (
	"bytes"
	"context"
	"encoding/binary"
	"encoding/hex"
	"errors"
	"fmt"
	"io"
	"net"
	"os"
	"runtime"
	"strconv"
	"strings"
	"sync"
	"testing"
	"testing/synctest"
	"time"

	"github.com/pion/stun/v3"
)

func init() { vComponents["tcpmux"] = &vComp{gen: vTcpGen, exec: vTcpExec} }

// ---------------------------------------------------------------------------------------------
// fake network: listener and connection, built on channels + time.Timer created INSIDE the bubble
// ---------------------------------------------------------------------------------------------

var vTcpPeerIPs = []string{"192.0.2.1", "192.0.2.2", "2001:db8::1", "2001:db8::2"}
var vTcpLocalIPs = []string{"10.0.0.1", "10.0.0.2", "fd00::1", "fd00::2"}

type vTcpListener struct {
	ch     chan net.Conn
	closed chan struct{}
	once   sync.Once
	addr   net.Addr
}

func (l *vTcpListener) Accept() (net.Conn, error) {
	select {
	case c := <-l.ch:
		return c, nil
	case <-l.closed:
		return nil, &net.OpError{Op: "accept", Net: "tcp", Err: net.ErrClosed}
	}
}
func (l *vTcpListener) Close() error {
	l.once.Do(func() { close(l.closed) })
	return nil
}
func (l *vTcpListener) Addr() net.Addr { return l.addr }
func (l *vTcpListener) isClosed() bool {
	select {
	case <-l.closed:
		return true
	default:
		return false
	}
}

var errVTcpReset = errors.New("connection reset by peer (fake)")

type vTcpConn struct {
	mu      sync.Mutex
	in      []byte // client -> mux, not yet read
	eof     bool   // client closed its side
	reset   bool   // client reset the connection
	closed  bool   // mux side called Close
	nclose  int
	rdl     time.Time
	wake    chan struct{}
	out     []byte // mux -> client (bytes written)
	outSeen int    // frames already reported
	local   *net.TCPAddr
	remote  *net.TCPAddr
	// script-side bookkeeping: the client closed/reset its side, or stopped in the middle of a frame
	cEnd, stuck bool
}

func (c *vTcpConn) bcast() { // c.mu held
	close(c.wake)
	c.wake = make(chan struct{})
}

func (c *vTcpConn) Read(b []byte) (int, error) {
	for {
		c.mu.Lock()
		if c.closed {
			c.mu.Unlock()
			return 0, &net.OpError{Op: "read", Net: "tcp", Err: net.ErrClosed}
		}
		if len(c.in) > 0 {
			n := copy(b, c.in)
			c.in = c.in[n:]
			c.mu.Unlock()
			return n, nil
		}
		if c.reset {
			c.mu.Unlock()
			return 0, &net.OpError{Op: "read", Net: "tcp", Err: errVTcpReset}
		}
		if c.eof {
			c.mu.Unlock()
			return 0, io.EOF
		}
		dl, w := c.rdl, c.wake
		c.mu.Unlock()
		var tc <-chan time.Time
		var tm *time.Timer
		if !dl.IsZero() {
			d := time.Until(dl)
			if d <= 0 {
				return 0, &net.OpError{Op: "read", Net: "tcp", Err: os.ErrDeadlineExceeded}
			}
			tm = time.NewTimer(d)
			tc = tm.C
		}
		select {
		case <-w:
		case <-tc:
		}
		if tm != nil {
			tm.Stop()
		}
	}
}

func (c *vTcpConn) Write(b []byte) (int, error) {
	c.mu.Lock()
	defer c.mu.Unlock()
	if c.closed {
		return 0, &net.OpError{Op: "write", Net: "tcp", Err: net.ErrClosed}
	}
	c.out = append(c.out, b...)
	return len(b), nil
}

func (c *vTcpConn) Close() error {
	c.mu.Lock()
	defer c.mu.Unlock()
	c.nclose++
	if c.closed {
		return &net.OpError{Op: "close", Net: "tcp", Err: net.ErrClosed}
	}
	c.closed = true
	c.bcast()
	return nil
}
func (c *vTcpConn) LocalAddr() net.Addr  { return c.local }
func (c *vTcpConn) RemoteAddr() net.Addr { return c.remote }
func (c *vTcpConn) SetDeadline(t time.Time) error {
	_ = c.SetWriteDeadline(t)
	return c.SetReadDeadline(t)
}
func (c *vTcpConn) SetReadDeadline(t time.Time) error {
	c.mu.Lock()
	defer c.mu.Unlock()
	if c.closed {
		return &net.OpError{Op: "set", Net: "tcp", Err: net.ErrClosed}
	}
	c.rdl = t
	c.bcast()
	return nil
}
func (c *vTcpConn) SetWriteDeadline(time.Time) error { return nil }

// client side
func (c *vTcpConn) push(b []byte) {
	c.mu.Lock()
	c.in = append(c.in, b...)
	c.bcast()
	c.mu.Unlock()
}
func (c *vTcpConn) clientClose(reset bool) {
	c.mu.Lock()
	if reset {
		c.reset = true
	} else {
		c.eof = true
	}
	c.bcast()
	c.mu.Unlock()
}
func (c *vTcpConn) isClosed() bool {
	c.mu.Lock()
	defer c.mu.Unlock()
	return c.closed
}

// newReplies returns the complete frames written by the mux since the last call.
func (c *vTcpConn) newReplies() [][]byte {
	c.mu.Lock()
	defer c.mu.Unlock()
	var res [][]byte
	for {
		rest := c.out[c.outSeen:]
		if len(rest) < 2 {
			return res
		}
		n := int(binary.BigEndian.Uint16(rest))
		if len(rest) < 2+n {
			return res
		}
		res = append(res, append([]byte{}, rest[2:2+n]...))
		c.outSeen += 2 + n
	}
}

// ---------------------------------------------------------------------------------------------
// session = one bubble; operations are handed in over ordinary (non-bubble) channels
// ---------------------------------------------------------------------------------------------

type vTcpHandle struct {
	pc     net.PacketConn
	closed bool
}

type vTcpSess struct {
	ops  chan []string
	res  chan string
	done chan struct{}
	park chan struct{}

	// everything below is touched only by the bubble's main goroutine
	bubble   string
	mux      *TCPMuxDefault
	lis      *vTcpListener
	clients  []*vTcpConn
	handles  []*vTcpHandle
	frames   map[string]string // hex(bytes) -> frame id
	closeRet chan struct{}
	closing  bool
	o        *vOut
}

var vTcpCur *vTcpSess

func vTcpMatchAll(string, string) (bool, error) { return true, nil }

func vTcpStart(o *vOut) *vTcpSess {
	s := &vTcpSess{ops: make(chan []string), res: make(chan string), done: make(chan struct{}), park: make(chan struct{}), frames: map[string]string{}, o: o}
	go func() {
		defer close(s.done)
		// A *testing.T is needed for synctest.Test; the harness entry point does not hand one down,
		// so a nested one-test run is used (its name must match the -test.run pattern of the binary).
		testing.RunTests(vTcpMatchAll, []testing.InternalTest{{Name: "TestVerifHarness", F: func(t *testing.T) {
			synctest.Test(t, func(t *testing.T) { s.main() })
		}}})
	}()
	return s
}

func (s *vTcpSess) main() {
	s.bubble = vTcpOwnBubble()
	for t := range s.ops {
		r := func() (r string) {
			defer func() {
				if p := recover(); p != nil {
					r = "PANIC " + strings.NewReplacer("\t", " ", "\n", " ").Replace(fmt.Sprint(p))
				}
			}()
			return s.op(t)
		}()
		s.res <- r
		if t[1] == "end" && strings.HasPrefix(r, "end ok") {
			return
		}
		if t[1] == "end" {
			// something is still alive: never let the bubble end (it would abort the process);
			// park this goroutine on a channel from outside the bubble (not a durable block) instead.
			<-s.park
		}
	}
}

func vTcpExec(o *vOut, t []string) string {
	if len(t) < 2 {
		return "bad-op"
	}
	if t[1] == "new" || t[1] == "multi" {
		if vTcpCur != nil {
			// silent teardown of an unfinished session (replays / shrinking drop the `end` op)
			vTcpCur.ops <- []string{"tcpmux", "end"}
			<-vTcpCur.res
			vTcpCur = nil
		}
	}
	if t[1] == "new" || t[1] == "multi" {
		vTcpCur = vTcpStart(o)
	}
	if vTcpCur == nil {
		return "no-session"
	}
	s := vTcpCur
	s.ops <- t
	r := <-s.res
	if t[1] == "end" || t[1] == "multi" {
		if t[1] == "multi" {
			s.ops <- []string{"tcpmux", "end"}
			<-s.res
		}
		vTcpCur = nil
	}
	return r
}

// ---------------------------------------------------------------------------------------------
// goroutine census of the current bubble, by creation site
// ---------------------------------------------------------------------------------------------

func vTcpOwnBubble() string {
	buf := make([]byte, 4096)
	buf = buf[:runtime.Stack(buf, false)]
	head, _, _ := strings.Cut(string(buf), "\n")
	if i := strings.Index(head, "synctest bubble "); i >= 0 {
		return strings.TrimRight(head[i:], "]:")
	}
	return "?"
}

type vTcpCensus struct{ acc, hand, watch, read, writ, other int }

func (s *vTcpSess) census() vTcpCensus {
	buf := make([]byte, 1<<20)
	buf = buf[:runtime.Stack(buf, true)]
	var c vTcpCensus
	for _, g := range strings.Split(string(buf), "\n\n") {
		head, _, _ := strings.Cut(g, "\n")
		if !strings.Contains(head, s.bubble+"]") && !strings.Contains(head, s.bubble+",") {
			continue
		}
		i := strings.LastIndex(g, "created by ")
		if i < 0 {
			continue // the bubble's root goroutine
		}
		by, _, _ := strings.Cut(g[i+len("created by "):], " in goroutine")
		by = strings.TrimSpace(by)
		switch {
		case strings.HasSuffix(by, ".NewTCPMuxDefault"):
			c.acc++
		case strings.HasSuffix(by, ".(*TCPMuxDefault).start"):
			c.hand++
		case strings.HasSuffix(by, ".(*TCPMuxDefault).createConn"):
			c.watch++
		case strings.HasSuffix(by, ".(*tcpPacketConn).AddConn"):
			c.read++
		case strings.HasSuffix(by, ".newBufferedConn"):
			c.writ++
		case strings.Contains(by, ".(*vTcpSess)."), strings.Contains(by, "testing"), strings.Contains(by, ".vTcp"):
			// the harness's own helpers (pending Close call, root)
		default:
			c.other++
		}
	}
	return c
}

// ---------------------------------------------------------------------------------------------
// frames
// ---------------------------------------------------------------------------------------------

func vTcpTxID(fid int) (id [stun.TransactionIDSize]byte) {
	binary.BigEndian.PutUint64(id[4:], uint64(fid)+1)
	id[0] = 0xC1
	return id
}

func vTcpPattern(fid, n int) []byte {
	b := make([]byte, n)
	r := &vRand{s: uint64(fid)*7919 + 13}
	for i := range b {
		b[i] = byte(r.next())
	}
	if n > 0 {
		b[0] |= 0xC0 // never looks like STUN (first two bits must be zero)
	}
	if n >= 4 {
		binary.BigEndian.PutUint32(b[n-4:], uint32(fid)) // distinct per frame id
		b[0] |= 0xC0
	}
	return b
}

// vTcpFrame builds the payload of one frame. kind: u<ufrag> (USERNAME "<ufrag>:peer"), w<ufrag>
// (USERNAME "<ufrag>"), n (Binding without USERNAME), o (another method, with USERNAME), g / d (not STUN).
// STUN kinds are padded with a SOFTWARE attribute up to `length` when that is larger than the natural size.
func vTcpFrame(fid int, kind string, length int) ([]byte, error) {
	var setters []stun.Setter
	typ := stun.BindingRequest
	switch fid % 3 {
	case 1:
		typ = stun.NewType(stun.MethodBinding, stun.ClassIndication)
	case 2:
		typ = stun.BindingSuccess
	}
	switch kind[0] {
	case 'u':
		setters = []stun.Setter{typ, stun.NewUsername(kind[1:] + ":peer")}
	case 'w':
		setters = []stun.Setter{typ, stun.NewUsername(kind[1:])}
	case 'n':
		setters = []stun.Setter{typ}
	case 'o':
		setters = []stun.Setter{stun.NewType(stun.MethodAllocate, stun.ClassRequest), stun.NewUsername("a:peer")}
	case 'g', 'd':
		switch {
		case kind[0] == 'g' && fid%4 == 1 && length >= 24:
			// a STUN header whose length field lies
			m, err := stun.Build(stun.NewTransactionIDSetter(vTcpTxID(fid)), stun.BindingRequest, stun.NewUsername("a:peer"))
			if err != nil {
				return nil, err
			}
			b := append([]byte{}, m.Raw...)
			for len(b) < length {
				b = append(b, byte(fid))
			}
			b = b[:length]
			binary.BigEndian.PutUint16(b[2:], uint16(length)) // wrong: counts the header too
			return b, nil
		default:
			return vTcpPattern(fid, length), nil
		}
	default:
		return nil, fmt.Errorf("bad kind")
	}
	all := append([]stun.Setter{stun.NewTransactionIDSetter(vTcpTxID(fid))}, setters...)
	m, err := stun.Build(all...)
	if err != nil {
		return nil, err
	}
	if length > len(m.Raw) {
		pad := length - len(m.Raw) - 4
		if pad < 0 || pad%4 != 0 {
			return nil, fmt.Errorf("bad stun length %d (natural %d)", length, len(m.Raw))
		}
		all = append(all, stun.RawAttribute{Type: stun.AttrSoftware, Value: bytes.Repeat([]byte{'x'}, pad)})
		if m, err = stun.Build(all...); err != nil {
			return nil, err
		}
	}
	return append([]byte{}, m.Raw...), nil
}

func vTcpNatural(kind string) int {
	b, err := vTcpFrame(0, kind, 0)
	if err != nil {
		return 0
	}
	return len(b)
}

// ---------------------------------------------------------------------------------------------
// operations
// ---------------------------------------------------------------------------------------------

func vTcpAddrStr(a net.Addr) string {
	if a == nil {
		return "nil"
	}
	host, port, err := net.SplitHostPort(a.String())
	if err != nil {
		return "raw(" + strings.ReplaceAll(a.String(), " ", "_") + ")"
	}
	for i, ip := range vTcpPeerIPs {
		if ip == host {
			return strconv.Itoa(i) + ":" + port
		}
	}
	return "raw(" + a.String() + ")"
}

func vTcpErr(err error) string {
	var ne net.Error
	switch {
	case err == nil:
		return "ok"
	case errors.Is(err, io.ErrClosedPipe):
		return "err:closed"
	case errors.Is(err, io.EOF):
		return "err:eof"
	case errors.Is(err, net.ErrClosed):
		return "err:netclosed"
	case errors.Is(err, io.ErrShortBuffer):
		return "err:short"
	case errors.Is(err, errVTcpReset):
		return "err:reset"
	case errors.Is(err, errConnectionAddrAlreadyExist):
		return "err:dup"
	case errors.Is(err, errNoTCPMuxAvailable):
		return "err:nomux"
	case errors.Is(err, context.Canceled):
		return "err:canceled"
	case errors.As(err, &ne) && ne.Timeout():
		return "err:timeout"
	}
	return "err:other"
}

func (s *vTcpSess) digest(res string) string {
	var closed, outs []string
	for k, c := range s.clients {
		if c.isClosed() {
			closed = append(closed, strconv.Itoa(k))
		}
		for _, f := range c.newReplies() {
			id, ok := s.frames[hex.EncodeToString(f)]
			if !ok {
				id = "?" + strconv.Itoa(len(f))
			}
			if len(f) < 4 {
				id = "-" // payloads shorter than 4 bytes do not carry their id
			}
			outs = append(outs, strconv.Itoa(k)+":"+id)
		}
	}
	g := s.census()
	l, ret := 0, 0
	if s.lis != nil && s.lis.isClosed() {
		l = 1
	}
	if s.closeRet != nil {
		select {
		case <-s.closeRet:
			ret = 1
		default:
		}
	}
	return fmt.Sprintf("%s ; c=%s ; o=%s ; g=%d/%d/%d/%d/%d/%d ; L=%d ; ret=%d", res, strings.Join(closed, ","), strings.Join(outs, ","),
		g.acc, g.hand, g.watch, g.read, g.writ, g.other, l, ret)
}

func vTcpAtoi(s string) int {
	n, err := strconv.Atoi(s)
	if err != nil {
		return -1
	}
	return n
}

func (s *vTcpSess) op(t []string) string {
	if t[1] == "multi" {
		return s.multi(t)
	}
	if t[1] != "new" && t[1] != "end" && s.mux == nil {
		return "no-session"
	}
	res := s.op1(t)
	synctest.Wait()
	if strings.HasPrefix(res, "bad-op") {
		return res
	}
	return s.digest(res)
}

func (s *vTcpSess) op1(t []string) string {
	a := func(i int) int {
		if i < len(t) {
			return vTcpAtoi(t[i])
		}
		return -1
	}
	client := func(i int) *vTcpConn {
		if k := a(i); k >= 0 && k < len(s.clients) {
			return s.clients[k]
		}
		return nil
	}
	handle := func(i int) *vTcpHandle {
		if i < len(t) && strings.HasPrefix(t[i], "h") {
			if k := vTcpAtoi(t[i][1:]); k >= 0 && k < len(s.handles) {
				return s.handles[k]
			}
		}
		return nil
	}
	switch t[1] {
	case "new": // new <cap> <wbuf> <t1 ms> <t2 ms>
		if len(t) != 6 || s.mux != nil {
			return "bad-op"
		}
		s.lis = &vTcpListener{ch: make(chan net.Conn), closed: make(chan struct{}), addr: &net.TCPAddr{IP: net.IPv4zero, Port: 7000}}
		s.mux = NewTCPMuxDefault(TCPMuxParams{
			Listener: s.lis, ReadBufferSize: a(2), WriteBufferSize: a(3),
			FirstStunBindTimeout:         time.Duration(a(4)) * time.Millisecond,
			AliveDurationForConnFromStun: time.Duration(a(5)) * time.Millisecond,
		})
		s.o.stat("op.new")
		return "ok"
	case "accept": // accept <k> <peer ip id> <peer port> <local ip id>
		if len(t) != 6 || a(2) != len(s.clients) || a(3) < 0 || a(3) >= len(vTcpPeerIPs) || a(5) < 0 || a(5) >= len(vTcpLocalIPs) || a(4) < 0 {
			return "bad-op"
		}
		c := &vTcpConn{wake: make(chan struct{}),
			remote: &net.TCPAddr{IP: net.ParseIP(vTcpPeerIPs[a(3)]), Port: a(4)},
			local:  &net.TCPAddr{IP: net.ParseIP(vTcpLocalIPs[a(5)]), Port: 7000}}
		s.clients = append(s.clients, c)
		select {
		case s.lis.ch <- c:
			s.o.stat("op.accept")
			return "ok"
		case <-s.lis.closed:
			// a real listener that is closed refuses the connection: the client sees it closed
			c.closed = true
			s.o.stat("op.accept.refused")
			return "refused"
		}
	case "frame": // frame <k> <fid> <kind> <len>
		c := client(2)
		if len(t) != 6 || c == nil || a(3) < 0 || a(5) < 0 || a(5) > 65535 {
			return "bad-op"
		}
		b, err := vTcpFrame(a(3), t[4], a(5))
		if err != nil || len(b) != a(5) {
			return "bad-op"
		}
		if c.cEnd || c.stuck {
			return "noop"
		}
		s.frames[hex.EncodeToString(b)] = t[3]
		hdr := []byte{byte(len(b) >> 8), byte(len(b))}
		c.push(append(hdr, b...))
		s.o.stat("op.frame." + t[4][:1])
		return "sent " + strconv.Itoa(len(b))
	case "partial": // partial <k> <fid> <kind> <len> <cut>: header + the first <cut> payload bytes of the frame, then silence
		c := client(2)
		if len(t) != 7 || c == nil || a(6) < -1 {
			return "bad-op"
		}
		b, err := vTcpFrame(a(3), t[4], a(5))
		if err != nil || a(6) >= len(b) {
			return "bad-op"
		}
		if c.cEnd || c.stuck {
			return "noop"
		}
		c.stuck = true
		hdr := []byte{byte(len(b) >> 8), byte(len(b))}
		if a(6) < 0 {
			c.push(hdr[:1])
		} else {
			c.push(append(hdr, b[:a(6)]...))
		}
		s.o.stat("op.partial")
		return "sent"
	case "cclose", "creset":
		c := client(2)
		if len(t) != 3 || c == nil {
			return "bad-op"
		}
		if c.cEnd {
			return "noop"
		}
		c.cEnd = true
		c.clientClose(t[1] == "creset")
		s.o.stat("op." + t[1])
		return "ok"
	case "advance": // advance <ms>
		if len(t) != 3 || a(2) < 0 {
			return "bad-op"
		}
		time.Sleep(time.Duration(a(2)) * time.Millisecond)
		s.o.stat("op.advance")
		return "ok"
	case "getconn": // getconn U<ufrag> <v6 0|1> <local ip id>
		if len(t) != 5 || !strings.HasPrefix(t[2], "U") || a(4) < 0 || a(4) >= len(vTcpLocalIPs) {
			return "bad-op"
		}
		pc, err := s.mux.GetConnByUfrag(t[2][1:], t[3] == "1", net.ParseIP(vTcpLocalIPs[a(4)]))
		s.o.stat("op.getconn." + vTcpErr(err))
		if err != nil {
			return vTcpErr(err)
		}
		s.handles = append(s.handles, &vTcpHandle{pc: pc})
		return "h" + strconv.Itoa(len(s.handles)-1)
	case "remove": // remove U<ufrag>
		if len(t) != 3 || !strings.HasPrefix(t[2], "U") {
			return "bad-op"
		}
		s.mux.RemoveConnByUfrag(t[2][1:])
		s.o.stat("op.remove")
		return "ok"
	case "closeh":
		h := handle(2)
		if h == nil {
			return "bad-op"
		}
		err := h.pc.Close()
		h.closed = true
		s.o.stat("op.closeh")
		return vTcpErr(err)
	case "closepc": // close the underlying packet connection of handle h directly
		h := handle(2)
		if h == nil {
			return "bad-op"
		}
		sp, ok := h.pc.(*sharedPacketConn)
		if !ok {
			return "bad-op"
		}
		s.o.stat("op.closepc")
		return vTcpErr(sp.underlying.Close())
	case "write": // write h<i> <peer ip id> <port> <pid> <len>
		h := handle(2)
		if len(t) != 7 || h == nil || a(3) < 0 || a(3) >= len(vTcpPeerIPs) || a(6) < 0 || a(6) > 65535 {
			return "bad-op"
		}
		b := vTcpPattern(a(5), a(6))
		s.frames[hex.EncodeToString(b)] = t[5]
		n, err := h.pc.WriteTo(b, &net.TCPAddr{IP: net.ParseIP(vTcpPeerIPs[a(3)]), Port: a(4)})
		s.o.stat("op.write." + vTcpErr(err))
		if err != nil {
			return vTcpErr(err)
		}
		return "n=" + strconv.Itoa(n)
	case "read": // read h<i>
		h := handle(2)
		if h == nil {
			return "bad-op"
		}
		r := s.read(h)
		s.o.stat("op.read." + strings.SplitN(r, " ", 2)[0])
		return r
	case "closemux":
		if s.closing {
			return "already"
		}
		s.closing = true
		s.closeRet = make(chan struct{})
		go s.callClose()
		s.o.stat("op.closemux")
		return "ok"
	case "end":
		return s.end()
	}
	return "bad-op"
}

func (s *vTcpSess) callClose() {
	_ = s.mux.Close()
	close(s.closeRet)
}

type vTcpReadRes struct {
	n    int
	addr net.Addr
	err  error
	data []byte
}

// read performs one ReadFrom that cannot block the script: a closed handle answers at once through
// the handle itself; on an open handle the underlying packet connection's readFromContext (what
// sharedPacketConn.ReadFrom calls) runs with a context that is cancelled if it is still blocked
// at quiescence.
func (s *vTcpSess) read(h *vTcpHandle) string {
	sp, ok := h.pc.(*sharedPacketConn)
	if !ok {
		return "bad-op"
	}
	buf := make([]byte, receiveMTU)
	if sp.ctx.Err() != nil {
		_, _, err := h.pc.ReadFrom(buf)
		return vTcpErr(err)
	}
	ctx, cancel := context.WithCancel(context.Background())
	defer cancel()
	ch := make(chan vTcpReadRes, 1)
	go func() {
		n, addr, err := sp.underlying.readFromContext(ctx, buf)
		ch <- vTcpReadRes{n: n, addr: addr, err: err}
	}()
	synctest.Wait()
	var r vTcpReadRes
	select {
	case r = <-ch:
	default:
		cancel()
		r = <-ch
		if errors.Is(r.err, context.Canceled) {
			return "empty"
		}
	}
	if r.err != nil {
		if r.addr != nil {
			return vTcpErr(mapContextError(r.err)) + " " + vTcpAddrStr(r.addr)
		}
		return vTcpErr(mapContextError(r.err))
	}
	id, ok := s.frames[hex.EncodeToString(buf[:r.n])]
	if !ok {
		id = "?"
	}
	if r.n < 4 {
		id = "-" // payloads shorter than 4 bytes do not carry their id
	}
	return fmt.Sprintf("pkt %s %s %d", vTcpAddrStr(r.addr), id, r.n)
}

// end tears the session down completely and reports what is left: handles closed, mux closed,
// virtual time advanced past both timeouts; the census must then be empty and Close returned.
func (s *vTcpSess) end() string {
	if s.mux == nil {
		return "end ok (no mux)"
	}
	for _, h := range s.handles {
		_ = h.pc.Close()
	}
	if !s.closing {
		s.closing = true
		s.closeRet = make(chan struct{})
		go s.callClose()
	}
	synctest.Wait()
	t1, t2 := s.mux.params.FirstStunBindTimeout, s.mux.params.AliveDurationForConnFromStun
	time.Sleep(t1 + t2 + time.Millisecond)
	synctest.Wait()
	g := s.census()
	ret := 0
	select {
	case <-s.closeRet:
		ret = 1
	default:
	}
	open := 0
	for _, c := range s.clients {
		if !c.isClosed() {
			open++
		}
	}
	s.o.stat("op.end")
	if ret == 1 && open == 0 && g == (vTcpCensus{}) {
		return "end ok"
	}
	return fmt.Sprintf("end LEAK ret=%d open=%d g=%d/%d/%d/%d/%d/%d", ret, open, g.acc, g.hand, g.watch, g.read, g.writ, g.other)
}

// ---------------------------------------------------------------------------------------------
// S2: MultiTCPMuxDefault.GetAllConns with a later mux that fails
// ---------------------------------------------------------------------------------------------

// multi <n muxes> <index of the closed mux, or -1>: n real muxes, optionally one of them closed before the call;
// output: result, then per mux the reference count and registration of the packet connection for the ufrag.
func (s *vTcpSess) multi(t []string) string {
	if len(t) != 4 {
		return "bad-op"
	}
	n, bad := vTcpAtoi(t[2]), vTcpAtoi(t[3])
	if n < 0 || n > 4 || bad >= n {
		return "bad-op"
	}
	var muxes []*TCPMuxDefault
	var ifs []TCPMux
	for i := 0; i < n; i++ {
		l := &vTcpListener{ch: make(chan net.Conn), closed: make(chan struct{}), addr: &net.TCPAddr{IP: net.IPv4zero, Port: 7000 + i}}
		m := NewTCPMuxDefault(TCPMuxParams{Listener: l})
		muxes = append(muxes, m)
		ifs = append(ifs, m)
	}
	if bad >= 0 {
		_ = muxes[bad].Close()
	}
	synctest.Wait()
	mm := NewMultiTCPMuxDefault(ifs...)
	conns, err := mm.GetAllConns("a", false, net.ParseIP(vTcpLocalIPs[0]))
	synctest.Wait()
	res := vTcpErr(err)
	if err == nil {
		res = "n=" + strconv.Itoa(len(conns))
	}
	var per []string
	for _, m := range muxes {
		m.mu.Lock()
		pc, ok := m.getConn("a", false, net.ParseIP(vTcpLocalIPs[0]))
		m.mu.Unlock()
		if ok {
			per = append(per, fmt.Sprintf("reg:%d", pc.refs.Load()))
		} else {
			per = append(per, "none")
		}
	}
	// what the caller can do about it: nothing is returned, so no handle can be closed; the agent's
	// RemoveConnByUfrag (or Close of the mux) is the only thing that releases it
	mm.RemoveConnByUfrag("a")
	synctest.Wait()
	after := 0
	for _, m := range muxes {
		m.mu.Lock()
		if _, ok := m.getConn("a", false, net.ParseIP(vTcpLocalIPs[0])); ok {
			after++
		}
		m.mu.Unlock()
	}
	for _, c := range conns {
		_ = c.Close()
	}
	_ = mm.Close()
	synctest.Wait()
	g := s.census()
	s.o.stat("op.multi." + res)
	return fmt.Sprintf("%s ; %s ; afterRemove=%d ; g=%d", res, strings.Join(per, ","), after, g.acc+g.hand+g.watch+g.read+g.writ+g.other)
}

// ---------------------------------------------------------------------------------------------
// generator
// ---------------------------------------------------------------------------------------------

// hand-written sessions run first: the boundary cases of every clause of C15.
var vTcpScripts = [][]string{
	{ // known ufrag: attach, order, source, reply path, handle close closes the TCP connection
		"new 4 0 30 50", "getconn Ua 0 0", "accept 0 0 1000 0", "frame 0 1 ua 32", "frame 0 2 d 10", "frame 0 3 d 0",
		"read h0", "read h0", "read h0", "read h0", "write h0 0 1000 7 5", "write h0 0 1001 8 5", "closeh h0", "read h0", "end"},
	{ // unknown ufrag: provisional, expires exactly at the alive deadline
		"new 4 0 30 50", "accept 0 1 1001 0", "frame 0 1 ub 32", "advance 49", "advance 1", "getconn Ub 0 0", "read h0", "end"},
	{ // provisional claimed in time: does not expire; first frame is waiting
		"new 4 0 30 50", "accept 0 1 1001 0", "frame 0 1 ub 32", "advance 49", "getconn Ub 0 0", "advance 500", "read h0", "frame 0 2 d 9", "read h0", "end"},
	{ // first-bind timeout: one ms early is in time, exactly at the deadline is late
		"new 4 0 30 50", "accept 0 0 1000 0", "accept 1 0 1001 0", "advance 29", "frame 0 1 ua 32", "advance 1", "frame 1 2 ua 32", "end"},
	{ // the 512-byte buffer: 512 fits, 516 does not; other rejects
		"new 4 0 30 50", "getconn Ua 0 0", "accept 0 0 1000 0", "frame 0 1 ua 512", "accept 1 0 1001 0", "frame 1 2 ua 516",
		"accept 2 0 1002 0", "frame 2 3 n 20", "accept 3 0 1003 0", "frame 3 4 o 32", "accept 4 0 1004 0", "frame 4 5 g 100",
		"accept 5 0 1005 0", "frame 5 6 g 0", "accept 6 0 1006 0", "frame 6 7 d 24", "accept 7 0 1007 0", "frame 7 9 g 24", "read h0", "read h0", "end"},
	{ // slow loris, early close, reset
		"new 4 0 30 50", "accept 0 0 1000 0", "partial 0 1 ua 32 -1", "accept 1 0 1001 0", "partial 1 2 ua 32 0", "accept 2 0 1002 0",
		"partial 2 3 ua 32 20", "accept 3 0 1003 0", "cclose 3", "accept 4 0 1004 0", "creset 4", "frame 0 4 d 5", "advance 29", "advance 1", "end"},
	{ // same remote address twice on one packet connection; family and local IP separate the keys
		"new 4 0 30 50", "getconn Ua 0 0", "getconn Ua 1 0", "getconn Ua 0 1", "accept 0 0 1000 0", "frame 0 1 ua 32", "accept 1 0 1000 0", "frame 1 2 ua 32",
		"accept 2 2 1000 0", "frame 2 3 ua 32", "accept 3 0 1000 1", "frame 3 4 wa 28", "read h0", "read h0", "read h1", "read h2", "cclose 0", "read h0",
		"accept 4 0 1000 0", "frame 4 5 ua 32", "read h0", "end"},
	{ // unbuffered receive channel: readers block, the first message stays first
		"new 0 0 30 50", "getconn Ua 0 0", "accept 0 0 1000 0", "frame 0 1 ua 32", "frame 0 2 d 10", "accept 1 1 1000 0", "frame 1 3 ua 32", "frame 1 4 d 11",
		"read h0", "read h0", "read h0", "read h0", "read h0", "cclose 0", "cclose 1", "read h0", "read h0", "end"},
	{ // full channel, later frame too large, errors reported through the queue
		"new 1 4096 30 50", "getconn Ua 0 0", "accept 0 0 1000 0", "frame 0 1 ua 32", "frame 0 2 d 8192", "frame 0 3 d 8193", "read h0", "read h0", "read h0", "read h0",
		"write h0 0 1000 9 100", "end"},
	{ // Close with a pending client: returns only after the first-bind timeout; a first frame during the wait creates a provisional connection
		"new 4 0 30 50", "accept 0 0 1000 0", "accept 1 0 1001 0", "closemux", "accept 2 0 1002 0", "frame 0 1 ua 32", "getconn Ua 0 0", "advance 30", "advance 19", "advance 1", "end"},
	{ // removal by ufrag closes both families; handles stay usable as closed
		"new 4 4096 30 50", "getconn Ua 0 0", "getconn Ua 1 2", "getconn Ub 0 0", "accept 0 0 1000 0", "frame 0 1 ua 32", "accept 1 2 1000 2", "frame 1 2 ua 32",
		"accept 2 0 1001 0", "frame 2 3 ub 32", "remove Ua", "read h0", "read h0", "write h0 0 1000 5 5", "read h2", "write h2 0 1001 6 5", "closeh h0", "closepc h2", "read h2", "read h2", "end"},
	{ // F22 / O1: closing the IPv4-flag packet connection of (b, "10.0.0.1") must leave the IPv6-flag one and its client alone
		"new 4 0 30 50", "getconn Ub 1 0", "getconn Ub 0 0", "accept 0 2 1000 0", "frame 0 1 ub 32", "closeh h1", "read h0",
		"write h0 2 1000 9 8", "frame 0 2 d 12", "read h0", "closeh h0", "end"},
	{ // a second client naming the same unknown ufrag joins the provisional connection; it still expires at the ORIGINAL alive deadline
		"new 4 0 30 50", "accept 0 1 1001 0", "frame 0 1 ub 32", "advance 20", "accept 1 1 1002 0", "frame 1 2 ub 32", "advance 29", "advance 1",
		"frame 0 3 d 5", "getconn Ub 0 0", "read h0", "end"},
	{ // … and three clients, the last one just before the deadline
		"new 4 0 30 50", "accept 0 1 1001 0", "frame 0 1 uc 32", "accept 1 1 1002 0", "advance 10", "frame 1 2 uc 32", "advance 39", "accept 2 0 1003 0",
		"frame 2 3 uc 32", "advance 1", "advance 100", "getconn Uc 0 0", "read h0", "end"},
	{ // empty ufrag, two handles on one connection, default timeouts
		"new 2 0 0 0", "accept 0 0 1000 0", "frame 0 1 u 32", "getconn U 0 0", "getconn U 0 0", "closeh h0", "read h1", "advance 29999", "accept 1 0 1001 0", "advance 1", "advance 29999", "advance 1", "closeh h1", "end"},
}

type vTcpGenClient struct {
	ip, port, lip int
	first, done   bool // a first frame was sent; the client closed / reset / got stuck
	valid         bool // the first frame was acceptable
	ufrag         string
}

type vTcpGenHandle struct {
	ufrag  string
	v6     bool
	lip    int
	closed bool
}

var vTcpUfrags = []string{"a", "b", "c", ""}

// vTcpGenSession emits one random session. The generator keeps only a rough picture of the state
// (which clients probably are attached to which key) to make most operations meaningful; it never
// looks at the implementation.
func vTcpGenSession(r *vRand, maxOps int, emit func(string)) {
	caps := []int{0, 1, 2, 4, 64}
	t1s := []int{30, 30, 7, 0}
	t2s := []int{50, 50, 5, 0}
	cp, t1, t2 := caps[r.intn(len(caps))], t1s[r.intn(len(t1s))], t2s[r.intn(len(t2s))]
	wbuf := 0
	if r.chance(1, 3) {
		wbuf = 4096
	}
	emit(fmt.Sprintf("tcpmux new %d %d %d %d", cp, wbuf, t1, t2))
	et1, et2 := t1, t2
	if et1 == 0 {
		et1 = 30000
	}
	if et2 == 0 {
		et2 = 30000
	}
	var clients []*vTcpGenClient
	var handles []*vTcpGenHandle
	fid := 0
	nops := maxOps/3 + r.intn(maxOps-maxOps/3)
	closed := false
	pickUfrag := func() string {
		if len(handles) > 0 && r.chance(2, 3) {
			return handles[r.intn(len(handles))].ufrag
		}
		if len(clients) > 0 && r.chance(1, 2) {
			// the ufrag another client already named: several TCP connections on one (possibly provisional) packet connection
			if c := clients[r.intn(len(clients))]; c.valid {
				return c.ufrag
			}
		}
		return vTcpUfrags[r.intn(len(vTcpUfrags))]
	}
	matches := func(h *vTcpGenHandle, c *vTcpGenClient) bool {
		return c.valid && c.ufrag == h.ufrag && (c.ip >= 2) == h.v6 && c.lip == h.lip
	}
	// prologue (2 sessions of 3): a populated mux — handles for one or two ufrags, clients routed to them
	if r.chance(2, 3) {
		nh := 1 + r.intn(2)
		for hi := 0; hi < nh; hi++ {
			h := &vTcpGenHandle{ufrag: vTcpUfrags[hi], lip: r.intn(2)}
			if r.chance(1, 6) {
				h.v6, h.lip = true, 2+r.intn(2)
			}
			v6 := 0
			if h.v6 {
				v6 = 1
			}
			emit(fmt.Sprintf("tcpmux getconn U%s %d %d", h.ufrag, v6, h.lip))
			handles = append(handles, h)
		}
		nc := 1 + r.intn(3)
		for k := 0; k < nc; k++ {
			h := handles[r.intn(len(handles))]
			c := &vTcpGenClient{ip: r.intn(2), port: 1000 + k, lip: h.lip, first: true, valid: true, ufrag: h.ufrag}
			if h.v6 {
				c.ip = 2 + r.intn(2)
			}
			emit(fmt.Sprintf("tcpmux accept %d %d %d %d", len(clients), c.ip, c.port, c.lip))
			fid++
			kind := "u" + c.ufrag
			emit(fmt.Sprintf("tcpmux frame %d %d %s %d", len(clients), fid, kind, vTcpNatural(kind)))
			clients = append(clients, c)
		}
	}
	for i := 0; i < nops; i++ {
		var fresh, started, live []int
		for k, c := range clients {
			switch {
			case c.done:
			case !c.first:
				fresh = append(fresh, k)
			default:
				started = append(started, k)
				if c.valid {
					live = append(live, k)
				}
			}
		}
		var openH []int
		for hi, h := range handles {
			if !h.closed {
				openH = append(openH, hi)
			}
		}
		x := r.intn(100)
		switch {
		case x < 12 || len(clients) == 0: // accept
			c := &vTcpGenClient{ip: r.intn(2), port: 1000 + r.intn(3), lip: r.intn(2)}
			if r.chance(1, 4) {
				c.ip, c.lip = 2+r.intn(2), 2+r.intn(2) // IPv6 peer on an IPv6 local address
			}
			if r.chance(1, 10) {
				c.ip, c.lip = r.intn(4), r.intn(4) // any combination
			}
			emit(fmt.Sprintf("tcpmux accept %d %d %d %d", len(clients), c.ip, c.port, c.lip))
			clients = append(clients, c)
		case x < 30 && len(fresh) > 0: // first frame
			k := fresh[r.intn(len(fresh))]
			c := clients[k]
			fid++
			y := r.intn(100)
			kind, ln := "", 0
			switch {
			case y < 62:
				c.ufrag = pickUfrag()
				c.valid = true
				kind = "u" + c.ufrag
				if r.chance(1, 5) {
					kind = "w" + c.ufrag
				}
				ln = vTcpNatural(kind)
				if r.chance(1, 6) {
					ln = 512
				} else if r.chance(1, 8) {
					ln = ln + 4*(1+r.intn(100))
					if ln > 512 {
						ln = 508
					}
				}
			case y < 70:
				kind = "u" + pickUfrag()
				ln = []int{516, 520, 600, 1200, 8192, 9000}[r.intn(6)]
			case y < 77:
				kind, ln = "n", 20
				if r.chance(1, 3) {
					ln = 20 + 4*(1+r.intn(20))
				}
			case y < 83:
				kind = "o"
				ln = vTcpNatural(kind)
			case y < 94:
				kind = "g"
				ln = []int{0, 1, 2, 19, 20, 24, 100, 512, 513, 2000}[r.intn(10)]
			default:
				kind = "d"
				ln = []int{0, 1, 10, 100, 512, 1200}[r.intn(6)]
			}
			c.first = true
			emit(fmt.Sprintf("tcpmux frame %d %d %s %d", k, fid, kind, ln))
		case x < 48 && len(started) > 0: // later frame
			k := started[r.intn(len(started))]
			if len(live) > 0 && r.chance(4, 5) {
				k = live[r.intn(len(live))]
			}
			fid++
			ln := []int{0, 1, 10, 10, 100, 100, 1200, 8192}[r.intn(8)]
			if r.chance(1, 25) {
				ln = []int{8193, 65535}[r.intn(2)]
			}
			kind := "d"
			if r.chance(1, 10) {
				kind = "u" + pickUfrag()
				ln = vTcpNatural(kind)
			}
			emit(fmt.Sprintf("tcpmux frame %d %d %s %d", k, fid, kind, ln))
		case x < 51:
			k := r.intn(len(clients))
			if len(fresh) > 0 && r.chance(2, 3) {
				k = fresh[r.intn(len(fresh))]
			}
			fid++
			kind := "u" + pickUfrag()
			cut := []int{-1, 0, 1, 19, 20}[r.intn(5)]
			emit(fmt.Sprintf("tcpmux partial %d %d %s %d %d", k, fid, kind, vTcpNatural(kind), cut))
			clients[k].done = true
		case x < 56:
			k := r.intn(len(clients))
			emit(fmt.Sprintf("tcpmux cclose %d", k))
			clients[k].done = true
		case x < 58:
			k := r.intn(len(clients))
			emit(fmt.Sprintf("tcpmux creset %d", k))
			clients[k].done = true
		case x < 64:
			dts := []int{1, 1, 2, et1 - 1, et1, et2 - 1, et2, et1 + et2, 1 + r.intn(20)}
			dt := dts[r.intn(len(dts))]
			if dt > 200 && r.chance(2, 3) {
				dt = 1 + r.intn(10) // the 30 s defaults: mostly small steps
			}
			emit(fmt.Sprintf("tcpmux advance %d", dt))
		case x < 72: // getconn
			h := &vTcpGenHandle{ufrag: vTcpUfrags[r.intn(len(vTcpUfrags))], v6: r.chance(1, 5), lip: r.intn(2)}
			if h.v6 && r.chance(4, 5) {
				h.lip = 2 + r.intn(2)
			}
			if len(live) > 0 && r.chance(3, 5) { // the key of some routed client
				c := clients[live[r.intn(len(live))]]
				h = &vTcpGenHandle{ufrag: c.ufrag, v6: c.ip >= 2, lip: c.lip}
			}
			v6 := 0
			if h.v6 {
				v6 = 1
			}
			emit(fmt.Sprintf("tcpmux getconn U%s %d %d", h.ufrag, v6, h.lip))
			if !closed {
				handles = append(handles, h)
			}
		case x < 74:
			emit("tcpmux remove U" + pickUfrag())
		case x < 77 && len(handles) > 0:
			hi := r.intn(len(handles))
			emit(fmt.Sprintf("tcpmux closeh h%d", hi))
			handles[hi].closed = true
		case x < 78 && len(handles) > 0:
			emit(fmt.Sprintf("tcpmux closepc h%d", r.intn(len(handles))))
		case x < 87 && len(handles) > 0: // write
			hi := r.intn(len(handles))
			if len(openH) > 0 && r.chance(9, 10) {
				hi = openH[r.intn(len(openH))]
			}
			c := clients[r.intn(len(clients))]
			// prefer a pair (handle, client routed to this handle's key)
			for tries := 0; tries < 8; tries++ {
				hj := hi
				if len(openH) > 0 {
					hj = openH[r.intn(len(openH))]
				}
				d := clients[r.intn(len(clients))]
				if matches(handles[hj], d) {
					hi, c = hj, d
					break
				}
			}
			fid++
			emit(fmt.Sprintf("tcpmux write h%d %d %d %d %d", hi, c.ip, c.port, 100000+fid, []int{0, 1, 20, 100, 1200}[r.intn(5)]))
		case x < 98 && len(handles) > 0: // read
			hi := r.intn(len(handles))
			for tries := 0; tries < 6 && len(openH) > 0 && len(live) > 0; tries++ {
				hj := openH[r.intn(len(openH))]
				if matches(handles[hj], clients[live[r.intn(len(live))]]) {
					hi = hj
					break
				}
			}
			emit(fmt.Sprintf("tcpmux read h%d", hi))
		case x == 99 || (x == 98 && i > nops/2):
			emit("tcpmux closemux")
			closed = true
		default:
			if len(handles) > 0 {
				emit(fmt.Sprintf("tcpmux read h%d", r.intn(len(handles))))
			} else {
				u := pickUfrag()
				emit(fmt.Sprintf("tcpmux getconn U%s 0 0", u))
				if !closed {
					handles = append(handles, &vTcpGenHandle{ufrag: u})
				}
			}
		}
	}
	// drain part of what is queued so that the order clause sees it, then tear down
	for hi, h := range handles {
		for j := 0; j < 4 && !h.closed && r.chance(3, 4); j++ {
			emit(fmt.Sprintf("tcpmux read h%d", hi))
		}
	}
	emit("tcpmux end")
}

func vTcpGen(o *vOut, r *vRand, thorough bool, args []string, emit func(op string)) {
	for _, sc := range vTcpScripts {
		for _, op := range sc {
			emit("tcpmux " + op)
		}
	}
	for _, m := range [][2]int{{0, -1}, {1, -1}, {1, 0}, {2, -1}, {2, 0}, {2, 1}, {3, 2}, {3, 1}} {
		emit(fmt.Sprintf("tcpmux multi %d %d", m[0], m[1]))
	}
	sessions, maxOps := 400, 30
	if thorough {
		sessions, maxOps = 6000, 150
	}
	sessions = vEnvInt("VERIF_TCPMUX_SESSIONS", sessions)
	for i := 0; i < sessions; i++ {
		mo := maxOps
		if thorough && i%2 == 0 {
			mo = 40
		}
		vTcpGenSession(r.fork(), mo, emit)
	}
}
