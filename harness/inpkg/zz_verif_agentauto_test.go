//go:build verif && go1.25

package ice

// Directed generator scenario of component "agent" for AUTOMATIC renomination (WithAutomaticRenomination):
// the controlling agent decides by itself, from the round-trip times it measured, to nominate another pair.
//
// Round-trip times are under the generator's control.  The hub holds every datagram until an op delivers it, the
// clock is synctest's virtual clock, and a pair's RTT is the virtual time between the emission of a request and the
// processing of its response.  The session keeps every timer of both agents on a grid of G ms (ka = ci = G, API calls
// only at grid times), so requests are emitted exactly at grid times; every request is delivered at once and every
// response addressed to the controlling agent is held for exactly the delay chosen for its pair.  The delays are
// chosen around every threshold of Agent.shouldRenominate (relay -> direct; RTT improvement of more than 10 ms, also
// at the values where the float64 round trip of a duration loses a nanosecond; quality score more than 15 % better),
// so that the automatic switch does and does not trigger.

import (
	"fmt"
	"math"
	"strconv"
	"strings"
	"time"
)

// vgQuality: the arithmetic of evaluateCandidatePairQuality, used ONLY to steer the generator towards a threshold
// (it is no oracle: the model has its own arithmetic and the implementation's outputs are judged against that).
func vgQuality(lt, rt int, rttNs int64, bonus bool) float64 {
	ts := func(t int) float64 {
		switch t {
		case 1:
			return 100
		case 2:
			return 50
		case 3:
			return 30
		case 4:
			return 10
		}
		return 0
	}
	score := (ts(lt) + ts(rt)) / 2
	rtt := time.Duration(rttNs).Seconds()
	if rtt > 0 {
		ms := float64(time.Duration(rtt*float64(time.Second)) / time.Millisecond)
		if ms < 1 {
			ms = 1
		}
		score -= math.Log10(ms) * 10
	} else {
		score -= 30
	}
	if bonus {
		score += 20
	}
	return score
}

// vgLossy: does the float64 round trip of d ms (Duration -> seconds -> Duration) lose a nanosecond?
func vgLossy(ms int) bool {
	d := time.Duration(ms) * time.Millisecond
	return time.Duration(d.Seconds()*float64(time.Second)) != d
}

type vgPairView struct {
	id, la, ra int
	st         string
	rtt        int64
}

// vgView: selected pair id (-1 = none), the pairs of agent `letter` and the number of values it has drawn from its
// counter, as printed in the implementation's digest.
func vgView(res, letter string) (int, []vgPairView, int) {
	i := strings.Index(res, letter+"{")
	if i < 0 {
		return -1, nil, 0
	}
	body := res[i+2:]
	if j := strings.Index(body, "}"); j >= 0 {
		body = body[:j]
	}
	sel, drawn := -1, 0
	var pairs []vgPairView
	for _, f := range strings.Split(body, ";") {
		switch {
		case strings.HasPrefix(f, "sel="):
			if n, err := strconv.Atoi(f[4:]); err == nil {
				sel = n
			}
		case strings.HasPrefix(f, "ar="):
			if k := strings.IndexByte(f, '/'); k > 0 {
				drawn = vAtoi(f[k+1:])
			}
		case strings.HasPrefix(f, "P[") && len(f) > 3:
			for _, p := range strings.Split(f[2:len(f)-1], ",") {
				t := strings.Split(p, ":")
				if len(t) < 10 {
					continue
				}
				ends := strings.Split(t[1], ">")
				if len(ends) != 2 {
					continue
				}
				v := vgPairView{id: vAtoi(t[0]), la: vAtoi(ends[0]), ra: vAtoi(ends[1]), st: t[3]}
				if k := strings.IndexByte(t[9], '/'); k > 1 {
					v.rtt, _ = strconv.ParseInt(t[9][1:k], 10, 64)
				}
				pairs = append(pairs, v)
			}
		}
	}
	return sel, pairs, drawn
}

func (g *vGenSess) autoRenom() {
	r := g.r
	g.hasB = true
	g.fl = nil
	variant := g.seq % 10
	g.o.stat(fmt.Sprintf("sess.autorenom.%d", variant))
	// the grid: keepalive and check interval of both agents
	G := []int{400, 500, 1000}[r.intn(3)]
	if variant == 5 {
		G = 2000 // delays beyond one second: the float64 round trip of a duration loses a nanosecond there
	}
	interval := []int{300, 500, 1000, 0}[r.intn(4)] // 0 = the default of 3 s
	x := 16
	ys := []int{176, 192, 208}[:2+r.intn(2)]
	// candidate types as A is told them (the local candidate x is a host candidate)
	types := make([]int, len(ys))
	for i := range types {
		types[i] = 1
	}
	prios := make([]int, len(ys))
	for i := range prios {
		prios[i] = []int{2130706431, 2130706175, 1694498815, 16777215}[r.intn(4)]
	}
	cfgA := fmt.Sprintf("renom=1,auto=%d,ka=%d,ci=%d,tb=9,u=uA0,p=pA0", interval, G, G)
	cfgB := fmt.Sprintf("ka=%d,ci=%d,tb=5,u=uB0,p=pB0", G, G)
	startB := "0"
	switch variant {
	case 1: // quality threshold: the pairs differ in the type of the remote candidate
		for i := range types {
			types[i] = []int{1, 2, 3, 4}[r.intn(4)]
		}
		types[r.intn(len(types))] = 1
	case 2: // relay -> direct: the pair nominated first is a relay pair, a host pair validates later
		types[0] = 4
		prios[0] = 2130706431 // the relay pair has the best priority: A nominates it
		for i := 1; i < len(types); i++ {
			types[i] = 1
			prios[i] = 16777215
		}
	case 6: // automatic renomination WITHOUT WithRenomination: nothing may ever be issued
		cfgA = fmt.Sprintf("auto=%d,ka=%d,ci=%d,tb=9,u=uA0,p=pA0", interval, G, G)
	case 7: // both agents have the feature, both start controlling: B loses the conflict and must stay quiet
		cfgB = fmt.Sprintf("renom=1,auto=%d,ka=%d,ci=%d,tb=5,u=uB0,p=pB0", interval, G, G)
		startB = "1"
	case 8: // lite controlled peer
		cfgB = "lite=1,tb=5,u=uB0,p=pB0"
	}
	if r.chance(1, 4) && variant != 6 {
		cfgA += ",na=1"
	}
	g.op("new %s %s", cfgA, cfgB)
	now := 0 // virtual ms since the session began
	adv := func(d int) {
		if d > 0 {
			g.op("adv %d", d)
			now += d
		}
	}
	setup := func() {
		g.op("addlocal A 1 0 %d 2130706431 -", x)
		for i, y := range ys {
			g.op("addlocal B 1 0 %d %d -", y, prios[i])
		}
		for i, y := range ys {
			rel := "-"
			if types[i] != 1 {
				rel = "400"
			}
			g.op("addremote A %d 0 %d %d %s", types[i], y, prios[i], rel)
		}
		g.op("addremote B 1 0 %d 2130706431 -", x)
	}
	setup()
	g.op("start A 1 uB0 pB0")
	g.op("start B %s uA0 pA0", startB)

	// per pair (index into ys): the delay of the responses to A's requests (ms); -1 = hold for ever (dropped when stale)
	delay := make([]int, len(ys))
	for i := range delay {
		delay[i] = 20 + 10*r.intn(4)
	}
	if variant == 2 {
		for i := 1; i < len(delay); i++ {
			delay[i] = -1 // the host pairs validate later
		}
	}
	emitted := map[string]int{} // A's transaction id -> emission time of the request
	dropNext := 0               // number of nomination datagrams still to be lost
	pairOf := func(addr int) int {
		for i, y := range ys {
			if y == addr {
				return i
			}
		}
		return -1
	}
	// parse "src>dst:KIND:tid:…"
	parse := func(d string) (src, dst int, kind, tid string) {
		t := strings.SplitN(d, ":", 4)
		if len(t) < 3 {
			return -1, -1, "", ""
		}
		e := strings.Split(t[0], ">")
		if len(e) != 2 {
			return -1, -1, "", ""
		}
		return vAtoi(e[0]), vAtoi(e[1]), t[1], t[2]
	}
	// settle: deliver everything that is not a held response to A; returns the earliest due time of a held one (-1: none)
	settle := func() int {
		for guard := 0; guard < 600; guard++ {
			progressed := false
			for k := 0; k < len(g.fl); k++ {
				d := g.fl[k]
				src, dst, kind, tid := parse(d)
				if kind == "REQ" && strings.HasPrefix(tid, "A#") {
					if _, ok := emitted[tid]; !ok {
						emitted[tid] = now
					}
				}
				valued := kind == "REQ" && !strings.Contains(d, ":nom=-")
				if valued && dropNext > 0 {
					dropNext--
					g.o.stat("autorenom.lost")
					g.flop("drop", k)
					progressed = true
					break
				}
				if kind == "SUC" && strings.HasPrefix(tid, "A#") && dst == x {
					i := pairOf(src)
					if i < 0 {
						g.flop("deliver", k)
						progressed = true
						break
					}
					ts, ok := emitted[tid]
					if !ok {
						ts = now
					}
					if delay[i] < 0 {
						if now-ts >= 3900 { // the transaction is about to expire: make room
							g.flop("drop", k)
							progressed = true
							break
						}
						continue
					}
					if now-ts >= delay[i] {
						g.flop("deliver", k)
						progressed = true
						break
					}
					continue
				}
				g.flop("deliver", k)
				progressed = true
				break
			}
			if !progressed {
				break
			}
		}
		due := -1
		for _, d := range g.fl {
			src, dst, kind, tid := parse(d)
			if kind == "SUC" && strings.HasPrefix(tid, "A#") && dst == x {
				if i := pairOf(src); i >= 0 && delay[i] >= 0 {
					if t := emitted[tid] + delay[i]; due < 0 || t < due {
						due = t
					}
				}
			}
		}
		return due
	}
	// run the session up to virtual time `until` (a grid time)
	runTo := func(until int) {
		for guard := 0; now < until && guard < 400; guard++ {
			due := settle()
			next := (now/G + 1) * G
			if due > now && due < next {
				next = due
			}
			if next > until {
				next = until
			}
			adv(next - now)
		}
		settle()
	}
	rounds := func(n int) { runTo((now/G + n) * G) }
	last := func() (int, []vgPairView, int) { return vgView(g.op("mark auto"), "A") }

	// ---- establish: until A has a selected pair and the renomination interval has passed ----
	iv := interval
	if iv == 0 {
		iv = 3000
	}
	establish := func() {
		for k := 0; k < 14; k++ {
			rounds(1)
			if sel, _, _ := last(); sel >= 0 && now >= iv+G {
				break
			}
		}
	}
	establish()
	if variant == 2 {
		// the host pairs may validate now
		for i := 1; i < len(delay); i++ {
			delay[i] = 20 + 10*r.intn(4)
		}
		g.o.stat("autorenom.relay2direct")
		rounds(2 + iv/G)
	}
	// threshold: the greatest delay (ms) at which a candidate of type candTy still beats 1.15 x the current pair's score (-1: never)
	threshold := func(curTy, curMs int, curBonus bool, candTy int) int {
		th := -1
		for ms := 1; ms < G-1; ms++ {
			if vgQuality(1, candTy, int64(ms)*1e6, true) > vgQuality(1, curTy, int64(curMs)*1e6, curBonus)*1.15 {
				th = ms
			}
		}
		return th
	}
	around := func(th, fallback int) int {
		d := fallback
		if th >= 1 {
			d = th + []int{0, 1, -1, 2}[r.intn(4)]
		}
		if d < 0 {
			d = 0
		}
		if d >= G {
			d = G - 1
		}
		return d
	}

	// ---- threshold phases ----
	phases := 1 + r.intn(3)
	for ph := 0; ph < phases; ph++ {
		sel, pairs, drawn0 := last()
		cur := -1
		for _, p := range pairs {
			if p.id == sel {
				cur = pairOf(p.ra)
			}
		}
		if cur < 0 || len(ys) < 2 {
			rounds(2)
			continue
		}
		cand := (cur + 1 + r.intn(len(ys)-1)) % len(ys)
		if r.chance(1, 6) {
			dropNext = 1 // the nomination the phase may provoke is lost once: the next interval issues a greater value
		}
		kindName := ""
		switch kind := []int{0, 0, 1, 2, 3, 4}[r.intn(6)]; {
		case variant == 5:
			// beyond one second: an improvement of exactly 10 ms that the float64 round trip turns into 10 ms + 1 ns
			c := 1001 + r.intn(800)
			for tries := 0; tries < 2000 && !(vgLossy(c) && !vgLossy(c+10)); tries++ {
				c = 1001 + r.intn(800)
			}
			delay[cand] = c
			delay[cur] = c + []int{10, 10, 9, 11}[r.intn(4)]
			kindName = "lossy"
		case kind == 0:
			// RTT rule: the candidate is 9, 10, 11 or 12 ms faster
			c := 40 + r.intn(G/2)
			delay[cur] = c
			delay[cand] = c - []int{9, 10, 11, 12}[r.intn(4)]
			kindName = "rtt"
		case kind == 1:
			// quality rule: the candidate's delay sits where its score passes 1.15 x the current one
			c := 1 + r.intn(12)
			delay[cur] = c
			delay[cand] = around(threshold(types[cur], c, true, types[cand]), c+r.intn(20))
			kindName = "quality"
		case kind == 2:
			// no round trip measured: a response in the instant of the request (RTT 0)
			delay[cur] = []int{0, 30}[r.intn(2)]
			delay[cand] = []int{0, 0, 15}[r.intn(3)]
			kindName = "zero"
		case kind == 3:
			// the current pair goes stale: no response for more than 5 s (the stability bonus goes, its last measured
			// round trip stays); the candidate sits around the threshold that follows from that
			c := 20 + r.intn(40)
			delay[cur] = c
			rounds(2)
			delay[cur] = -1
			delay[cand] = around(threshold(types[cur], c, false, types[cand]), 10+r.intn(40))
			kindName = "stale"
			rounds(5000/G + 2)
			delay[cur] = 10 + r.intn(40)
		default:
			// a clear improvement
			delay[cur] = 200 + r.intn(G/4)
			delay[cand] = 5 + r.intn(30)
			kindName = "clear"
		}
		g.o.stat("autorenom." + kindName)
		rounds(3 + iv/G + r.intn(2))
		if _, _, drawn1 := last(); drawn1 > drawn0 {
			g.o.stat("autorenom." + kindName + ".fired")
		} else {
			g.o.stat("autorenom." + kindName + ".quiet")
		}
		// ---- role switch / Restart while the feature is on ----
		if ph == 0 && variant == 3 {
			g.o.stat("autorenom.restart")
			g.op("restart A uA1 pA1")
			g.op("restart B uB1 pB1")
			for k := len(g.fl) - 1; k >= 0; k-- {
				g.flop("drop", k)
			}
			g.op("creds A uB1 pB1")
			g.op("creds B uA1 pA1")
			setup()
			rounds(3 + iv/G)
		}
		if ph == 0 && variant == 4 {
			// A loses a role conflict: it is controlled from now on and must stay quiet (B too: nobody nominates any more)
			g.o.stat("autorenom.roleswitch")
			g.op("inject A %d %d cls=0,tid=x7,user=uA0:uB0,key=pA0,prio=100,role=c,tb=18446744073709551615", x, ys[0])
			rounds(3 + iv/G)
			// ... and the API refuses too: the feature is on, the pair exists, the agent is controlled
			g.op("renom A %d %d %d", x, r.intn(len(ys)), 50+r.intn(50))
			rounds(2)
		}
		if ph == 0 && variant == 7 {
			// B (feature on, controlled after the conflict) is asked to renominate an existing pair
			g.op("renom B %d 0 %d", ys[r.intn(len(ys))], 50+r.intn(50))
			rounds(2)
		}
	}
	// ---- drain: every held response is delivered, then a fair suffix ----
	for i := range delay {
		if delay[i] < 0 || delay[i] > 50 {
			delay[i] = 10
		}
	}
	rounds(3 + iv/G)
	for guard := 0; len(g.fl) > 0 && guard < 400; guard++ {
		g.flop("deliver", 0)
	}
	g.op("mark quiesced")
}
