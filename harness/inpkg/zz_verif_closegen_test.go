//go:build verif && go1.25

package ice

import (
	"fmt"
	"strings"
	"time"
)

// Generator for component "close" (C08).  A session is a BASE operation sequence (setup, signalling, traffic,
// blocking sockets, parked calls, handler behaviours, gathering) into which Close / GracefulClose is injected at
// one position; for every base sequence the injection position runs over ALL positions 0..len (quick: a stride),
// from an API goroutine, from inside a handler, repeated and concurrent.  All choices derive from the *vRand.

type vcGenS struct {
	r    *vRand
	emit func(string)
	o    *vOut
	// session id prefix ("m": judged by the spec monitor only, see Driver/CloseSys.lean) and the API-only restriction of
	// the closing variants; ops emitted right after the closing action (the environment lets blocked writes go)
	prefix     string
	apiOnly    bool
	afterClose []string
}

func (g *vcGenS) op(format string, a ...any) { g.emit("close " + fmt.Sprintf(format, a...)) }

// base builds one base sequence (without Close) for agent A (and its peer B).
func (g *vcGenS) base(kind int) []string {
	r := g.r
	var ops []string
	add := func(f string, a ...any) { ops = append(ops, fmt.Sprintf(f, a...)) }
	modes := []string{"n", "n", "w", "e", "we"}
	hmodes := []string{"none", "none", "block", "getlocal", "addremote", "restart"}
	// handler behaviours first (they apply to every later notification)
	for _, st := range vcStreams {
		if r.chance(1, 2) {
			add("hdl A %s %s", st, hmodes[r.intn(len(hmodes))])
		}
	}
	na := 1 + r.intn(2)
	amode := make([]string, na)
	for i := 0; i < na; i++ {
		amode[i] = modes[r.intn(len(modes))]
		if kind == 1 { // connect first, block later
			amode[i] = strings.ReplaceAll(amode[i], "w", "")
			if amode[i] == "" {
				amode[i] = "n"
			}
		}
		add("cand A %d %s", 16*(1+i), amode[i])
	}
	add("cand B %d n", 16*11)
	if r.chance(1, 3) {
		add("api A gather")
	}
	for i := 0; i < na; i++ {
		add("remote B %d", 16*(1+i))
	}
	add("remote A %d", 16*11)
	switch r.intn(3) {
	case 0:
		add("start A 1")
		add("start B 0")
	case 1:
		add("dial A")
		add("accept B")
	default:
		add("accept A")
		add("dial B")
	}
	if r.chance(1, 2) {
		add("read A")
	}
	if r.chance(1, 2) {
		add("await A")
	}
	n := 3 + r.intn(8)
	nextra := 0
	for i := 0; i < n; i++ {
		switch x := r.intn(20); {
		case x < 6:
			add("flush %d", 1+r.intn(3))
		case x < 9:
			add("adv %d", []int{10, 100, 300, 1000, 2500}[r.intn(5)])
		case x < 11:
			add("write A %d", 1+r.intn(100))
		case x < 12:
			add("read A")
		case x < 14:
			add("api A %s", []string{"getlocal", "getremote", "restart", "gather", "creds", "selected", "stats"}[r.intn(7)])
		case x < 16:
			add("blockw A %d %d", 16*(1+r.intn(na)), r.intn(2))
		case x < 17:
			// (the environment letting single blocked writes through — op passw — is exercised by the corpus only:
			// the property's fault model is "the write blocks forever")
			add("api A stats")
		case x < 18:
			add("hdl A %s %s", vcStreams[r.intn(3)], hmodes[r.intn(len(hmodes))])
		case x < 19:
			add("release A")
		default:
			if nextra < 3 {
				add("cand A %d %s", 16*(3+nextra), modes[r.intn(len(modes))])
				nextra++
			}
		}
	}
	return ops
}

// baseTCP: ICE-TCP through a REAL TCPMuxDefault with a receive queue of 1..2 packets.  The agent gathers a passive TCP
// host candidate (a real tcpPacketConn behind a sharedPacketConn); a TCP client sends more framed packets than the
// queue holds while nobody takes them out — the agent has not been started (kind 0: the candidate's receive loop
// waits for the start), or its loop is stuck in a blocked UDP socket write (kind 1) — so the connection's reader
// goroutine is parked handing over the next packet when Close arrives.
func (g *vcGenS) baseTCP(kind int) []string {
	r := g.r
	var ops []string
	add := func(f string, a ...any) { ops = append(ops, fmt.Sprintf(f, a...)) }
	hmodes := []string{"none", "block", "getlocal", "restart"}
	rbs := 1 + r.intn(2)
	add("tcpmux A %d", rbs)
	if r.chance(1, 3) {
		add("hdl A %s %s", vcStreams[r.intn(3)], hmodes[r.intn(len(hmodes))])
	}
	k := rbs + 1 + r.intn(3)
	switch kind {
	case 0: // gathered, not started
		if r.chance(1, 2) {
			add("cand A 16 %s", []string{"n", "e", "w"}[r.intn(3)])
		}
		add("api A gather")
		add("tcppeer A %d", k)
		if r.chance(1, 2) {
			add("tcppeer A %d", 1+r.intn(3))
		}
		if r.chance(1, 2) {
			add("adv %d", []int{10, 100, 1000}[r.intn(3)])
		}
		add("tcpsend A 0 %d", 1+r.intn(3))
		if r.chance(1, 2) { // started later: the receive loop drains the queue, the reader goes on
			add("remote A 176")
			add("%s", []string{"start A 1", "start A 0", "dial A"}[r.intn(3)])
			add("tcpsend A 0 %d", rbs+1+r.intn(3))
			add("adv %d", []int{10, 100, 300}[r.intn(3)])
		}
	default: // started, the loop is stuck in a blocked UDP write: the receive loop parks in Run, the queue fills
		add("cand A 16 %s", []string{"w", "we", "wR", "wQ"}[r.intn(4)])
		if r.chance(1, 2) {
			add("api A gather")
			add("remote A 176")
			add("%s", []string{"start A 1", "start A 0", "dial A"}[r.intn(3)])
		} else {
			add("remote A 176")
			add("%s", []string{"start A 1", "start A 0", "dial A"}[r.intn(3)])
			add("api A gather") // parks behind the stuck task: no TCP candidate; the peer's packets open a packet conn of their own
			add("adv 10")
		}
		add("adv %d", []int{100, 300, 500}[r.intn(3)])
		add("tcppeer A %d", k)
		add("adv %d", []int{10, 100}[r.intn(2)])
		add("tcpsend A 0 %d", 1+r.intn(3))
	}
	for i := r.intn(3); i > 0; i-- {
		switch r.intn(5) {
		case 0:
			add("api A %s", []string{"getlocal", "restart", "creds", "stats"}[r.intn(4)])
		case 1:
			add("adv %d", []int{10, 100, 1000}[r.intn(3)])
		case 2:
			add("tcppeer A %d", 1+r.intn(4))
		case 3:
			add("read A")
		default:
			add("release A")
		}
	}
	return ops
}

// vcRelayStages: relay gathering against a stalled TURN server, per transport flavour the stages at which
// gatherCandidatesRelay can block: (udp) the allocation request is never answered; (tcp) the connection is
// established at once or late and the allocation is never answered, or the dial fails late; (tls) the connection is
// established at once or late and the ClientHello is swallowed, or the dial fails late; (dtls) the ClientHello is
// swallowed.  Every wait is bounded here (TURN transaction: 7 transmissions = 7.8 s; dial: <= 2.5 s), so that Close
// has to return within the bound.  NOT generated, because Close then waits for the dial on the unchanged tree
// (transport.Net.DialTCP takes no context; finding F-C08-dial in notes/C08.md §10): stage "dial" (never returns) and
// dial<ms> / late<ms> with ms beyond the bound.
var vcRelayStages = [][2]string{
	{"udp", "silent"}, {"tcp", "silent"}, {"tls", "silent"}, {"dtls", "silent"},
	{"tcp", "late1000"}, {"tls", "late1000"}, {"tcp", "dial1000"}, {"tls", "dial2500"},
}

// baseRelay: the agent gets a turn:/turns: URL of the flavour and gathers; the TURN server stalls at the stage.
func (g *vcGenS) baseRelay(flavour, stage string) []string {
	r := g.r
	var ops []string
	add := func(f string, a ...any) { ops = append(ops, fmt.Sprintf(f, a...)) }
	if r.chance(1, 3) {
		add("hdl A %s %s", vcStreams[r.intn(3)], []string{"block", "getlocal", "restart", "addremote"}[r.intn(4)])
	}
	add("turn A %s %s %s", flavour, stage, []string{"hr", "r", "hsr", "hr", "sr"}[r.intn(5)])
	if r.chance(1, 3) {
		add("cand A 16 %s", []string{"n", "w", "e"}[r.intn(3)])
	}
	add("api A gather")
	add("adv %d", []int{1, 10, 100, 500, 1000, 3000}[r.intn(6)])
	for i := r.intn(4); i > 0; i-- {
		switch r.intn(6) {
		case 0: // a second cycle while the first is still stalled
			add("api A restart")
			add("api A gather")
		case 1:
			add("api A %s", []string{"getlocal", "creds", "stats", "gather"}[r.intn(4)])
		case 2:
			add("adv %d", []int{10, 200, 1500, 4000}[r.intn(4)])
		case 3:
			add("remote A 176")
			add("%s", []string{"start A 1", "start A 0"}[r.intn(2)])
		case 4:
			add("release A")
		default:
			add("read A")
		}
	}
	return ops
}

// vcProfiles: the socket fault profiles = {blocked write released by deadline | by Close | by either | by the
// environment only} x {blocked read released by deadline | by Close | by either} x {Close instant | slow | fails | slow
// and fails}.
func vcProfiles() []string {
	var ps []string
	for _, w := range []string{"", "D", "C", "X"} {
		for _, rd := range []string{"", "Q", "R"} {
			for _, c := range []string{"", "s", "e", "se"} {
				ps = append(ps, w+rd+c)
			}
		}
	}
	return ps
}

// baseFault: two connected agents, A's socket has the fault profile; the socket then blocks, an application
// Conn.Write parks in it (and, after the keepalive interval, a task of the loop too).  Returns the base sequence and
// the position at which the write is parked (the Close is injected there, and at other positions).
func (g *vcGenS) baseFault(profile string) ([]string, int) {
	r := g.r
	var ops []string
	add := func(f string, a ...any) { ops = append(ops, fmt.Sprintf(f, a...)) }
	mode := profile
	if mode == "" {
		mode = "n"
	}
	if r.chance(1, 4) {
		add("hdl A %s %s", vcStreams[r.intn(3)], []string{"block", "getlocal", "restart"}[r.intn(3)])
	}
	add("cand A 16 %s", mode)
	two := r.chance(1, 4)
	if two {
		add("cand A 32 %s", mode)
	}
	add("cand B 176 n")
	add("remote A 176")
	add("remote B 16")
	if two {
		add("remote B 32")
	}
	switch r.intn(3) {
	case 0:
		add("dial A")
		add("accept B")
	case 1:
		add("accept A")
		add("dial B")
	default:
		add("start A 1")
		add("start B 0")
	}
	add("flush 8")
	if r.chance(1, 3) {
		add("read A")
	}
	add("blockw A 16 1")
	if two {
		add("blockw A 32 1")
	}
	add("write A %d", 1+r.intn(100))
	if r.chance(1, 2) {
		add("adv %d", []int{350, 400, 1000}[r.intn(3)]) // keepalive: a task of the loop parks in the socket too
		if r.chance(1, 3) {
			// a task that starts a candidate parks behind the stuck one, then the next timer task: were the loop still
			// taking tasks while Close aborts the socket, it would start a candidate nobody aborts and write on it
			add("cand A 48 w")
			add("adv %d", []int{100, 400}[r.intn(2)])
		}
	}
	if r.chance(1, 3) {
		add("write A %d", 1+r.intn(100))
	}
	key := len(ops)
	for i := r.intn(3); i > 0; i-- {
		switch r.intn(4) {
		case 0:
			add("api A %s", []string{"getlocal", "restart", "creds", "stats", "selected"}[r.intn(5)])
		case 1:
			add("adv %d", []int{10, 100, 400}[r.intn(3)])
		case 2:
			add("write A %d", 1+r.intn(100))
		default:
			add("await A")
		}
	}
	return ops, key
}

// inject emits the base sequence with a closing action at position pos, then post-close traffic and `end`.
func (g *vcGenS) inject(id int, base []string, pos int, variant int) {
	r := g.r
	g.op("new %s%d", g.prefix, id)
	if g.apiOnly && (variant == 2 || variant == 5) {
		variant = r.intn(2)
	}
	closing := func() {
		defer func() {
			for _, o := range g.afterClose {
				g.op("%s", o)
			}
		}()
		switch variant {
		case 0:
			g.op("close A 0")
		case 1:
			g.op("close A 1")
		case 2: // from inside the next state / candidate / pair callback
			g.op("hdl A %s close", vcStreams[r.intn(3)])
			g.o.stat("close.fromhandler")
		case 3: // two concurrent closers
			g.op("close A %d %d", r.intn(2), r.intn(2))
		case 4: // repeated
			g.op("close A 0")
			g.op("close A %d", r.intn(2))
			g.op("close A 1")
		case 5: // close from a handler AND from the API
			g.op("hdl A cs close")
			g.op("close A %d", r.intn(2))
		}
	}
	for i, o := range base {
		if i == pos {
			closing()
		}
		g.op("%s", o)
	}
	if pos >= len(base) {
		closing()
	}
	// after Close: every API again, blocked kinds included; then let time pass
	if r.chance(1, 2) {
		g.op("release A")
	}
	post := []string{"api A getlocal", "api A restart", "api A gather", "write A 10", "read A", "await A", "remote A 176",
		"cand A 112 n", "cand A 113 e", "start A 1", "dial A", "api A creds", "close A 0", "close A 1"}
	for k := 0; k < 2+r.intn(5); k++ {
		o := post[r.intn(len(post))]
		if strings.HasPrefix(o, "cand A") { // every socket address is used once per session
			o = fmt.Sprintf("cand A %d %s", 112+k, []string{"n", "e", "w"}[r.intn(3)])
		}
		g.op("%s", o)
	}
	if r.chance(1, 2) {
		g.op("flush 1")
	}
	g.op("adv %d", []int{0, 100, 3000}[r.intn(3)])
	g.op("end")
}

func vcGen(o *vOut, r *vRand, thorough bool, args []string, emit func(op string)) {
	nbase, stride := 60, 3
	budget := 20 * time.Second
	if thorough {
		nbase, stride = 4000, 1
		budget = 4 * time.Minute
	}
	t0 := time.Now()
	id := 0
	// modelling fact R1 (no hand-off once `done` is closed) on the real runtime
	if thorough {
		emit("close r1 2000")
	} else {
		emit("close r1 200")
	}
	// fixed boundary sessions first
	g := &vcGenS{r: r.fork(), emit: emit, o: o}
	for _, fixed := range vcFixed {
		id++
		g.op("new %d", id)
		for _, l := range fixed {
			g.op("%s", l)
		}
		g.op("end")
	}
	// the documented exclusion, replayed on the real code: GracefulClose called synchronously from a handler
	// deadlocks (C08_graceful_in_handler_witness); the driver expects exactly that (session id "w…")
	id++
	g.op("new w%d", id)
	for _, l := range []string{"hdl A cs gclose", "cand A 16 n", "remote A 176", "start A 1", "api A getlocal"} {
		g.op("%s", l)
	}
	g.op("end")
	for _, fixed := range vcFixedM {
		id++
		g.op("new m%d", id)
		for _, l := range fixed {
			g.op("%s", l)
		}
		g.op("end")
	}
	// ICE-TCP: real TCPMuxDefault, queue of 1..2 packets, unread backlog, Close at every (quick: every 2nd) position
	ntcp, tstride := 8, 2
	if thorough {
		ntcp, tstride = 200, 1
	}
	for b := 0; b < ntcp && time.Since(t0) < budget && vcAlarms < 3; b++ {
		g := &vcGenS{r: r.fork(), emit: emit, o: o, prefix: "m"}
		base := g.baseTCP(b % 2)
		for pos := g.r.intn(tstride); pos <= len(base) && vcAlarms < 3; pos += tstride {
			id++
			g.inject(id, base, pos, g.r.intn(6))
			o.stat("close.tcp")
		}
	}
	// relay gathering against a stalled TURN server: every transport flavour x every stage that can block
	nrelay, rstride := 2, 2
	if thorough {
		nrelay, rstride = 25, 1
	}
	for round := 0; round < nrelay; round++ {
		for _, fs := range vcRelayStages {
			if time.Since(t0) >= budget || vcAlarms >= 3 {
				break
			}
			g := &vcGenS{r: r.fork(), emit: emit, o: o, prefix: "m"}
			base := g.baseRelay(fs[0], fs[1])
			for pos := 1 + g.r.intn(rstride); pos <= len(base) && vcAlarms < 3; pos += rstride {
				id++
				g.inject(id, base, pos, g.r.intn(6))
				o.stat("close.relay")
			}
		}
	}
	// socket fault profiles x a Conn.Write parked in the socket at the time of Close
	profiles := vcProfiles()
	rounds := 1
	if thorough {
		rounds = 6
	}
	for round := 0; round < rounds; round++ {
		for _, pf := range profiles {
			if time.Since(t0) >= budget || vcAlarms >= 3 {
				break
			}
			g := &vcGenS{r: r.fork(), emit: emit, o: o}
			// outside the model's assumptions (M2: abortIO does not block; a blocked write is aborted by Close):
			// monitor only
			if strings.ContainsAny(pf, "sX") {
				g.prefix = "m"
			}
			if strings.Contains(pf, "X") {
				// nothing the agent does releases the write: the environment does, a little later, and the write
				// then fails (the deadline has passed); closers from handlers are left out (the passes below come
				// right after the closing op)
				g.apiOnly = true
				g.afterClose = []string{"adv 50", "passw A 16", "passw A 32", "adv 50", "passw A 16", "passw A 32", "passw A 16", "passw A 32"}
			}
			base, key := g.baseFault(pf)
			positions := []int{key}
			if x := g.r.intn(len(base) + 1); x != key {
				positions = append(positions, x)
			}
			if thorough {
				positions = positions[:0]
				for x := 0; x <= len(base); x++ {
					positions = append(positions, x)
				}
			}
			for _, pos := range positions {
				id++
				g.inject(id, base, pos, g.r.intn(6))
				o.stat("close.fault")
			}
		}
	}
	for b := 0; b < nbase && time.Since(t0) < budget && vcAlarms < 3; b++ {
		g := &vcGenS{r: r.fork(), emit: emit, o: o}
		base := g.base(b % 2)
		off := g.r.intn(stride)
		for pos := off; pos <= len(base) && time.Since(t0) < budget; pos += stride {
			id++
			g.inject(id, base, pos, g.r.intn(6))
			o.stat(fmt.Sprintf("close.variant"))
		}
	}
	// the run reached what it aims at (not judged when it was cut short by alarms)
	if vcAlarms == 0 {
		emit("close coverage")
	}
}

// hand-written boundary sessions judged by the monitor only (ids "m…"): ICE-TCP with a full receive queue, slow socket Close
var vcFixedM = [][]string{
	// passive TCP candidate gathered, agent not started, the peer sent 4 packets into a queue of 1, Close / GracefulClose
	{"tcpmux A 1", "api A gather", "tcppeer A 4", "adv 100", "close A 0", "api A getlocal"},
	{"tcpmux A 2", "api A gather", "tcppeer A 5", "tcppeer A 1", "close A 1"},
	// started, the loop stuck in a blocked UDP write, the TCP receive loop parked in Run, queue full, Close
	{"tcpmux A 2", "cand A 16 w", "api A gather", "remote A 176", "start A 1", "adv 500", "tcppeer A 5", "adv 100", "close A 1"},
	{"tcpmux A 1", "cand A 16 w", "api A gather", "remote A 176", "dial A", "adv 300", "tcppeer A 3", "tcpsend A 0 2", "close A 0 1"},
	// connected; the socket's blocked write is released by the deadline, its blocked read only by Close, and Close is
	// slow: the Conn.Write parked in the socket wakes while the receive loop is still alive; it must report an error
	{"cand A 16 Rs", "cand B 176 n", "remote A 176", "remote B 16", "dial A", "accept B", "flush 8", "blockw A 16 1", "write A 50", "adv 400", "close A 0"},
	{"cand A 16 DRse", "cand B 176 n", "remote A 176", "remote B 16", "start A 1", "start B 0", "flush 8", "blockw A 16 1", "write A 7", "close A 1"},
	// relay gathering, the TURN server reached over each transport flavour stays silent (allocation request / TLS
	// ClientHello / DTLS ClientHello swallowed); Close, GracefulClose, concurrent and repeated closers while it is stalled
	{"turn A udp silent hr", "api A gather", "adv 100", "close A 0", "api A getlocal", "close A 1"},
	{"turn A tcp silent r", "api A gather", "adv 100", "close A 1", "api A gather"},
	{"turn A tls silent r", "api A gather", "adv 100", "close A 0", "close A 1", "api A getlocal"},
	{"turn A tls silent hsr", "api A gather", "adv 1000", "close A 1 0"},
	{"turn A dtls silent hr", "api A gather", "adv 100", "close A 0 1", "api A restart"},
	// the TCP connection to the TURN server is established only after Close was called
	{"turn A tls late1000 r", "api A gather", "adv 100", "close A 1", "adv 2000"},
	// a task that starts a candidate, and the next check, parked behind a task stuck in a socket whose Close is slow:
	// none of them may run once Close has begun
	{"cand A 16 ws", "remote A 176", "start A 1", "cand A 48 w", "adv 200", "close A 0", "adv 100"},
	// the write is released by nothing the agent does; the environment lets it go 50 ms after the Close was called
	{"cand A 16 X", "cand B 176 n", "remote A 176", "remote B 16", "dial A", "accept B", "flush 8", "blockw A 16 1", "write A 50", "adv 400", "close A 0",
		"adv 50", "passw A 16", "passw A 16"},
}

// hand-written boundary sessions (the scenarios of the existing TestAgentCloseAborts* / TestCloseInConnectionStateCallback /
// TestAgentGracefulCloseDeadlock tests, and the brief's list)
var vcFixed = [][]string{
	// Close with nothing started
	{"close A 0"},
	{"close A 1"},
	// task blocked in a socket write, API calls parked behind it, then Close
	{"cand A 16 w", "remote A 176", "start A 1", "api A getlocal", "read A", "await A", "api A gather", "close A 0", "api A getlocal"},
	{"cand A 16 we", "remote A 176", "dial A", "api A restart", "close A 1"},
	// Close from inside the Connected callback, handler of another stream blocked
	{"hdl A cand block", "cand A 16 n", "cand B 176 n", "remote A 176", "remote B 16", "hdl A cs close", "dial A", "accept B", "flush 6", "release A"},
	// GracefulClose while a handler is blocked, released later
	{"hdl A cs block", "cand A 16 n", "remote A 176", "start A 1", "close A 1", "api A getlocal", "release A"},
	// concurrent closers, one graceful, during gathering
	{"api A gather", "close A 0 1"},
	{"cand A 16 w", "remote A 176", "api A gather", "start A 1", "api A gather", "close A 1 0"},
	// connected, then the socket starts blocking, application write parks in the socket, Close
	{"cand A 16 n", "cand B 176 n", "remote A 176", "remote B 16", "dial A", "accept B", "flush 8", "blockw A 16 1", "write A 50", "adv 400", "close A 0"},
	// restart from a handler while closing
	{"hdl A cs restart", "cand A 16 n", "remote A 176", "start A 1", "close A 0"},
}
