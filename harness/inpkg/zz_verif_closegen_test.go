//go:build verif && go1.25

package ice

import (
	"fmt"
	"strings"
	"time"
)

// Generator for component "close" (C08).  A session is a BASE operation sequence (setup, signalling, traffic,
// blocking sockets, parked calls, handler behaviours, gathering) into which Close / GracefulClose is injected at
// one position; for every base sequence the injection position runs over ALL positions 0..len (quick: a stride),
// from an API goroutine, from inside a handler, repeated and concurrent.  All choices derive from the *vRand.

type vcGenS struct {
	r    *vRand
	emit func(string)
	o    *vOut
}

func (g *vcGenS) op(format string, a ...any) { g.emit("close " + fmt.Sprintf(format, a...)) }

// base builds one base sequence (without Close) for agent A (and its peer B).
func (g *vcGenS) base(kind int) []string {
	r := g.r
	var ops []string
	add := func(f string, a ...any) { ops = append(ops, fmt.Sprintf(f, a...)) }
	modes := []string{"n", "n", "w", "e", "we"}
	hmodes := []string{"none", "none", "block", "getlocal", "addremote", "restart"}
	// handler behaviours first (they apply to every later notification)
	for _, st := range vcStreams {
		if r.chance(1, 2) {
			add("hdl A %s %s", st, hmodes[r.intn(len(hmodes))])
		}
	}
	na := 1 + r.intn(2)
	amode := make([]string, na)
	for i := 0; i < na; i++ {
		amode[i] = modes[r.intn(len(modes))]
		if kind == 1 { // connect first, block later
			amode[i] = strings.ReplaceAll(amode[i], "w", "")
			if amode[i] == "" {
				amode[i] = "n"
			}
		}
		add("cand A %d %s", 16*(1+i), amode[i])
	}
	add("cand B %d n", 16*11)
	if r.chance(1, 3) {
		add("api A gather")
	}
	for i := 0; i < na; i++ {
		add("remote B %d", 16*(1+i))
	}
	add("remote A %d", 16*11)
	switch r.intn(3) {
	case 0:
		add("start A 1")
		add("start B 0")
	case 1:
		add("dial A")
		add("accept B")
	default:
		add("accept A")
		add("dial B")
	}
	if r.chance(1, 2) {
		add("read A")
	}
	if r.chance(1, 2) {
		add("await A")
	}
	n := 3 + r.intn(8)
	nextra := 0
	for i := 0; i < n; i++ {
		switch x := r.intn(20); {
		case x < 6:
			add("flush %d", 1+r.intn(3))
		case x < 9:
			add("adv %d", []int{10, 100, 300, 1000, 2500}[r.intn(5)])
		case x < 11:
			add("write A %d", 1+r.intn(100))
		case x < 12:
			add("read A")
		case x < 14:
			add("api A %s", []string{"getlocal", "getremote", "restart", "gather", "creds", "selected", "stats"}[r.intn(7)])
		case x < 16:
			add("blockw A %d %d", 16*(1+r.intn(na)), r.intn(2))
		case x < 17:
			// (the environment letting single blocked writes through — op passw — is exercised by the corpus only:
			// the property's fault model is "the write blocks forever")
			add("api A stats")
		case x < 18:
			add("hdl A %s %s", vcStreams[r.intn(3)], hmodes[r.intn(len(hmodes))])
		case x < 19:
			add("release A")
		default:
			if nextra < 3 {
				add("cand A %d %s", 16*(3+nextra), modes[r.intn(len(modes))])
				nextra++
			}
		}
	}
	return ops
}

// inject emits the base sequence with a closing action at position pos, then post-close traffic and `end`.
func (g *vcGenS) inject(id int, base []string, pos int, variant int) {
	r := g.r
	g.op("new %d", id)
	closing := func() {
		switch variant {
		case 0:
			g.op("close A 0")
		case 1:
			g.op("close A 1")
		case 2: // from inside the next state / candidate / pair callback
			g.op("hdl A %s close", vcStreams[r.intn(3)])
			g.o.stat("close.fromhandler")
		case 3: // two concurrent closers
			g.op("close A %d %d", r.intn(2), r.intn(2))
		case 4: // repeated
			g.op("close A 0")
			g.op("close A %d", r.intn(2))
			g.op("close A 1")
		case 5: // close from a handler AND from the API
			g.op("hdl A cs close")
			g.op("close A %d", r.intn(2))
		}
	}
	for i, o := range base {
		if i == pos {
			closing()
		}
		g.op("%s", o)
	}
	if pos >= len(base) {
		closing()
	}
	// after Close: every API again, blocked kinds included; then let time pass
	if r.chance(1, 2) {
		g.op("release A")
	}
	post := []string{"api A getlocal", "api A restart", "api A gather", "write A 10", "read A", "await A", "remote A 176",
		"cand A 112 n", "cand A 113 e", "start A 1", "dial A", "api A creds", "close A 0", "close A 1"}
	for k := 0; k < 2+r.intn(5); k++ {
		o := post[r.intn(len(post))]
		if strings.HasPrefix(o, "cand A") { // every socket address is used once per session
			o = fmt.Sprintf("cand A %d %s", 112+k, []string{"n", "e", "w"}[r.intn(3)])
		}
		g.op("%s", o)
	}
	if r.chance(1, 2) {
		g.op("flush 1")
	}
	g.op("adv %d", []int{0, 100, 3000}[r.intn(3)])
	g.op("end")
}

func vcGen(o *vOut, r *vRand, thorough bool, args []string, emit func(op string)) {
	nbase, stride := 60, 3
	budget := 20 * time.Second
	if thorough {
		nbase, stride = 4000, 1
		budget = 4 * time.Minute
	}
	t0 := time.Now()
	id := 0
	// modelling fact R1 (no hand-off once `done` is closed) on the real runtime
	if thorough {
		emit("close r1 2000")
	} else {
		emit("close r1 200")
	}
	// fixed boundary sessions first
	g := &vcGenS{r: r.fork(), emit: emit, o: o}
	for _, fixed := range vcFixed {
		id++
		g.op("new %d", id)
		for _, l := range fixed {
			g.op("%s", l)
		}
		g.op("end")
	}
	// the documented exclusion, replayed on the real code: GracefulClose called synchronously from a handler
	// deadlocks (C08_graceful_in_handler_witness); the driver expects exactly that (session id "w…")
	id++
	g.op("new w%d", id)
	for _, l := range []string{"hdl A cs gclose", "cand A 16 n", "remote A 176", "start A 1", "api A getlocal"} {
		g.op("%s", l)
	}
	g.op("end")
	for b := 0; b < nbase && time.Since(t0) < budget; b++ {
		g := &vcGenS{r: r.fork(), emit: emit, o: o}
		base := g.base(b % 2)
		off := g.r.intn(stride)
		for pos := off; pos <= len(base) && time.Since(t0) < budget; pos += stride {
			id++
			g.inject(id, base, pos, g.r.intn(6))
			o.stat(fmt.Sprintf("close.variant"))
		}
	}
}

// hand-written boundary sessions (the scenarios of the existing TestAgentCloseAborts* / TestCloseInConnectionStateCallback /
// TestAgentGracefulCloseDeadlock tests, and the brief's list)
var vcFixed = [][]string{
	// Close with nothing started
	{"close A 0"},
	{"close A 1"},
	// task blocked in a socket write, API calls parked behind it, then Close
	{"cand A 16 w", "remote A 176", "start A 1", "api A getlocal", "read A", "await A", "api A gather", "close A 0", "api A getlocal"},
	{"cand A 16 we", "remote A 176", "dial A", "api A restart", "close A 1"},
	// Close from inside the Connected callback, handler of another stream blocked
	{"hdl A cand block", "cand A 16 n", "cand B 176 n", "remote A 176", "remote B 16", "hdl A cs close", "dial A", "accept B", "flush 6", "release A"},
	// GracefulClose while a handler is blocked, released later
	{"hdl A cs block", "cand A 16 n", "remote A 176", "start A 1", "close A 1", "api A getlocal", "release A"},
	// concurrent closers, one graceful, during gathering
	{"api A gather", "close A 0 1"},
	{"cand A 16 w", "remote A 176", "api A gather", "start A 1", "api A gather", "close A 1 0"},
	// connected, then the socket starts blocking, application write parks in the socket, Close
	{"cand A 16 n", "cand B 176 n", "remote A 176", "remote B 16", "dial A", "accept B", "flush 8", "blockw A 16 1", "write A 50", "adv 400", "close A 0"},
	// restart from a handler while closing
	{"hdl A cs restart", "cand A 16 n", "remote A 176", "start A 1", "close A 0"},
}
