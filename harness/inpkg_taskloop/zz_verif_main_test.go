//go:build verif

// In-package correspondence harness of /verif for internal/taskloop (see /verif/DESIGN.md §3.4).
// Copy of the small helpers of harness/inpkg/zz_verif_main_test.go (different package).
// These files are NOT part of /repo: the check overlays them into the package
// directory with `go test -overlay`, so they see the current working tree of
// /repo, unexported identifiers included, without any change to the repository.
package taskloop

import (
	"bufio"
	"encoding/json"
	"fmt"
	"os"
	"sort"
	"strconv"
	"strings"
	"testing"
)

// splitmix64: the single PRNG every random choice derives from (VERIF_SEED).
type vRand struct{ s uint64 }

func (r *vRand) next() uint64 {
	r.s += 0x9e3779b97f4a7c15
	z := r.s
	z = (z ^ (z >> 30)) * 0xbf58476d1ce4e5b9
	z = (z ^ (z >> 27)) * 0x94d049bb133111eb
	return z ^ (z >> 31)
}
func (r *vRand) intn(n int) int {
	if n <= 0 {
		return 0
	}
	return int(r.next() % uint64(n))
}
func (r *vRand) chance(num, den int) bool { return r.intn(den) < num }
func (r *vRand) fork() *vRand             { return &vRand{s: r.next()} }

// vOut writes one line per operation: "<op>\t<implementation output>".
type vOut struct {
	w     *bufio.Writer
	f     *os.File
	n     int
	stats map[string]int
	path  string
}

func newVOut(path string) (*vOut, error) {
	f, err := os.Create(path)
	if err != nil {
		return nil, err
	}
	return &vOut{w: bufio.NewWriterSize(f, 1<<20), f: f, stats: map[string]int{}, path: path}, nil
}

func (o *vOut) line(op, out string) {
	if strings.ContainsAny(op, "\t\n") || strings.ContainsAny(out, "\t\n") {
		panic("verif harness: tab/newline in protocol line: " + op + " / " + out)
	}
	o.w.WriteString(op)
	o.w.WriteByte('\t')
	o.w.WriteString(out)
	o.w.WriteByte('\n')
	o.n++
}
func (o *vOut) stat(key string)          { o.stats[key]++ }
func (o *vOut) statN(key string, n int) { o.stats[key] += n }
func (o *vOut) close() error {
	if err := o.w.Flush(); err != nil {
		return err
	}
	if err := o.f.Close(); err != nil {
		return err
	}
	keys := make([]string, 0, len(o.stats))
	for k := range o.stats {
		keys = append(keys, k)
	}
	sort.Strings(keys)
	m := map[string]any{"lines": o.n, "stats": o.stats}
	js, _ := json.MarshalIndent(m, "", " ")
	return os.WriteFile(o.path+".stats.json", js, 0o644)
}

// vComp is one component of the harness: gen produces operations (one line each, all random
// choices from r), exec runs ONE operation against the real code and returns its canonical
// output. Replays feed recorded operations to exec without gen.
type vComp struct {
	gen  func(o *vOut, r *vRand, thorough bool, args []string, emit func(op string))
	exec func(o *vOut, toks []string) string
}

var vComponents = map[string]*vComp{}

// vT is the running test (needed by testing/synctest bubbles started from a component).
var vT *testing.T

func vEnvInt(name string, def int) int {
	if v, err := strconv.Atoi(os.Getenv(name)); err == nil {
		return v
	}
	return def
}

// TestVerifHarness is the single entry point; it does nothing unless VERIF_COMPONENT is set.
// VERIF_OPS=<file>: replay the operations in the file (one per line, text before the first tab).
func TestVerifHarness(t *testing.T) {
	comp := os.Getenv("VERIF_COMPONENT")
	if comp == "" {
		t.Skip("VERIF_COMPONENT not set")
	}
	c, ok := vComponents[comp]
	if !ok {
		t.Fatalf("unknown component %q", comp)
	}
	out := os.Getenv("VERIF_OUT")
	if out == "" {
		t.Fatal("VERIF_OUT not set")
	}
	seed := uint64(vEnvInt("VERIF_SEED", 1))
	vT = t
	o, err := newVOut(out)
	if err != nil {
		t.Fatal(err)
	}
	emit := func(op string) {
		res := func() (res string) {
			defer func() {
				if p := recover(); p != nil {
					res = "PANIC " + strings.NewReplacer("\t", " ", "\n", " ").Replace(fmt.Sprint(p))
				}
			}()
			return c.exec(o, strings.Split(op, " "))
		}()
		o.line(op, res)
	}
	if ops := os.Getenv("VERIF_OPS"); ops != "" {
		raw, err := os.ReadFile(ops)
		if err != nil {
			t.Fatal(err)
		}
		for _, ln := range strings.Split(string(raw), "\n") {
			ln = strings.SplitN(ln, "\t", 2)[0]
			if ln != "" {
				emit(ln)
			}
		}
	} else {
		c.gen(o, &vRand{s: seed*0x2545F4914F6CDD1D + 1}, os.Getenv("VERIF_TIER") == "thorough", strings.Fields(os.Getenv("VERIF_ARGS")), emit)
	}
	if err := o.close(); err != nil {
		t.Fatal(err)
	}
	fmt.Printf("verif: component=%s lines=%d\n", comp, o.n)
}
