//go:build verif

package taskloop

// API-guard table of property C10 (DESIGN.md §5 C10 "Limit"): which Agent fields are touched
// OUTSIDE the task loop.  The walk is static: go/parser + go/types over /repo's package `ice`
// (imports of other modules are replaced by empty packages — field selections on *Agent, calls of
// package-local functions and methods resolve without them).
//
// Execution contexts of a piece of code:
//   ctor  — while the agent is being constructed (NewAgent… and what only they call; option closures)
//   task  — on the loop thread: the closure passed to `<x>.loop.Run(ctx, func…)`, the onClose closure
//           passed to taskloop.New, and named functions all of whose call sites are in task context
//   off   — possibly on another goroutine while the agent is shared: bodies of exported functions and
//           of exported methods on exported types (or on types embedded in them) outside a Run
//           closure, `go` statements, time.AfterFunc callbacks, the preStop argument of
//           CloseWithPreStop, and named functions called from such code
// A named function may have several contexts (a helper called both from a task and from a goroutine).
// Closures that are stored or returned (handlers, option closures other than AgentOption) have an
// unknown context and are NOT analysed (counted in the statistics) — the table is narrowed to what the
// walk can decide; it never reports an access it has not found on an off-loop path.
//
//	taskloop guard <func> <field> <r|w>  -> "outside" when the access is on an off-loop path (else "inside")
//	taskloop fieldclass <field>          -> immutable | sync:<type> | guarded:<mutex> | mutable:<writer contexts>
//
// The driver (lean/Driver/TaskLoop.lean) holds the allow-list.

import (
	"fmt"
	"go/ast"
	"go/importer"
	"go/parser"
	"go/token"
	"go/types"
	"os"
	"path/filepath"
	"sort"
	"strings"
	"sync"
)

type vFakeImporter struct{ pkgs map[string]*types.Package }

func (f *vFakeImporter) Import(path string) (*types.Package, error) {
	if p, ok := f.pkgs[path]; ok {
		return p, nil
	}
	if !strings.Contains(path, ".") {
		if p, err := importer.Default().Import(path); err == nil {
			f.pkgs[path] = p
			return p, nil
		}
	}
	name := filepath.Base(path)
	if strings.HasPrefix(name, "v") && len(name) <= 3 {
		name = filepath.Base(filepath.Dir(path))
	}
	p := types.NewPackage(path, name)
	p.MarkComplete()
	f.pkgs[path] = p
	return p, nil
}

const (
	gCtor = 1 << iota
	gTask
	gOff
)

type gRegion int

const (
	gInherit gRegion = iota // same contexts as the enclosing named function
	gInTask
	gInOff
	gInCtor
	gInCtorOrTask // an AgentOption closure without the `constructed` guard (UpdateOptions applies it in a task)
	gUnknown
)

type gAccess struct {
	fn      string
	field   string
	rw      string
	region  gRegion
	guarded string // agent mutex field locked earlier in the same function body
	pos     token.Position
}

type gEdge struct {
	from   string
	region gRegion
	to     string
}

type gWalker struct {
	fset          *token.FileSet
	info          *types.Info
	agentFields   map[*types.Var]string
	names         map[*types.Func]string
	methodsByName map[string][]*types.Func
	accesses      []gAccess
	edges         []gEdge
	unknown       int
	cur           string
	locks         []gLock
}

type gLock struct {
	mu  string
	pos token.Pos
}

type gResult struct {
	err      string
	flagged  map[string]token.Position // "<func> <field> <rw>" -> first position
	order    []string
	classes  map[string]string
	fields   []string
	unknown  int
	nAccess  int
	nFuncs   int
	offFuncs int
}

var (
	gOnce sync.Once
	gRes  *gResult
)

func gSelName(e ast.Expr) string {
	switch x := e.(type) {
	case *ast.Ident:
		return x.Name
	case *ast.SelectorExpr:
		return gSelName(x.X) + "." + x.Sel.Name
	case *ast.CallExpr:
		return gSelName(x.Fun) + "()"
	}
	return "?"
}

func (w *gWalker) isLoopRun(call *ast.CallExpr) bool {
	sel, ok := call.Fun.(*ast.SelectorExpr)
	if !ok || sel.Sel.Name != "Run" || len(call.Args) != 2 {
		return false
	}
	in, ok := sel.X.(*ast.SelectorExpr)
	return ok && in.Sel.Name == "loop"
}

func (w *gWalker) agentField(sel *ast.SelectorExpr) (string, bool) {
	s, ok := w.info.Selections[sel]
	if !ok || s.Kind() != types.FieldVal {
		return "", false
	}
	v, ok := s.Obj().(*types.Var)
	if !ok {
		return "", false
	}
	n, ok := w.agentFields[v]
	return n, ok
}

func (w *gWalker) callees(call *ast.CallExpr) []string {
	var fns []*types.Func
	switch f := call.Fun.(type) {
	case *ast.Ident:
		if fn, ok := w.info.Uses[f].(*types.Func); ok {
			fns = []*types.Func{fn}
		}
	case *ast.SelectorExpr:
		if s, ok := w.info.Selections[f]; ok && s.Kind() == types.MethodVal {
			fn := s.Obj().(*types.Func)
			if types.IsInterface(s.Recv()) {
				fns = w.methodsByName[fn.Name()]
			} else {
				fns = []*types.Func{fn}
			}
		} else if fn, ok := w.info.Uses[f.Sel].(*types.Func); ok {
			fns = []*types.Func{fn}
		}
	}
	var out []string
	for _, fn := range fns {
		if n, ok := w.names[fn]; ok {
			out = append(out, n)
		}
	}
	return out
}

func gLhsBase(e ast.Expr) *ast.SelectorExpr {
	switch x := e.(type) {
	case *ast.SelectorExpr:
		return x
	case *ast.IndexExpr:
		return gLhsBase(x.X)
	case *ast.StarExpr:
		return gLhsBase(x.X)
	case *ast.ParenExpr:
		return gLhsBase(x.X)
	}
	return nil
}

func (w *gWalker) record(sel *ast.SelectorExpr, rw string, region gRegion) {
	name, ok := w.agentField(sel)
	if !ok {
		return
	}
	guarded := ""
	for _, l := range w.locks {
		if l.pos < sel.Pos() {
			guarded = l.mu
		}
	}
	w.accesses = append(w.accesses, gAccess{w.cur, name, rw, region, guarded, w.fset.Position(sel.Pos())})
}

// optionGuarded: the closure starts with `if <x>.constructed { return … }`.
func (w *gWalker) optionGuarded(lit *ast.FuncLit) bool {
	if len(lit.Body.List) == 0 {
		return false
	}
	ifs, ok := lit.Body.List[0].(*ast.IfStmt)
	if !ok {
		return false
	}
	sel, ok := ifs.Cond.(*ast.SelectorExpr)
	if !ok || sel.Sel.Name != "constructed" {
		return false
	}
	if len(ifs.Body.List) != 1 {
		return false
	}
	_, isRet := ifs.Body.List[0].(*ast.ReturnStmt)
	return isRet
}

func (w *gWalker) walk(n ast.Node, region gRegion, isOptionFunc bool) {
	if n == nil {
		return
	}
	written := map[*ast.SelectorExpr]bool{}
	var visit func(n ast.Node) bool
	visit = func(n ast.Node) bool {
		switch x := n.(type) {
		case *ast.AssignStmt:
			for _, l := range x.Lhs {
				if b := gLhsBase(l); b != nil {
					if _, ok := w.agentField(b); ok {
						written[b] = true
						w.record(b, "w", region)
					}
				}
			}
		case *ast.IncDecStmt:
			if b := gLhsBase(x.X); b != nil {
				if _, ok := w.agentField(b); ok {
					written[b] = true
					w.record(b, "w", region)
				}
			}
		case *ast.ReturnStmt:
			if isOptionFunc {
				for _, r := range x.Results {
					if lit, ok := r.(*ast.FuncLit); ok {
						if w.optionGuarded(lit) {
							w.walk(lit.Body, gInCtor, false)
						} else {
							w.walk(lit.Body, gInCtorOrTask, false)
						}
					} else {
						ast.Inspect(r, visit)
					}
				}
				return false
			}
		case *ast.GoStmt:
			for _, a := range x.Call.Args {
				ast.Inspect(a, visit)
			}
			if lit, ok := x.Call.Fun.(*ast.FuncLit); ok {
				w.walk(lit.Body, gInOff, false)
			} else {
				for _, to := range w.callees(x.Call) {
					w.edges = append(w.edges, gEdge{w.cur, gInOff, to})
				}
				ast.Inspect(x.Call.Fun, visit)
			}
			return false
		case *ast.CallExpr:
			if w.isLoopRun(x) {
				ast.Inspect(x.Fun, visit)
				ast.Inspect(x.Args[0], visit)
				if lit, ok := x.Args[1].(*ast.FuncLit); ok {
					w.walk(lit.Body, gInTask, false)
				} else {
					ast.Inspect(x.Args[1], visit)
				}
				return false
			}
			name := gSelName(x.Fun)
			special := gInherit
			switch {
			case name == "taskloop.New":
				special = gInTask
			case name == "time.AfterFunc":
				special = gInOff
			case strings.HasSuffix(name, ".CloseWithPreStop"):
				special = gInOff
			}
			// mutex discipline: remember `<x>.<mu>.Lock()` / RLock() on an agent mutex field
			if sel, ok := x.Fun.(*ast.SelectorExpr); ok && (sel.Sel.Name == "Lock" || sel.Sel.Name == "RLock") {
				if inner, ok := sel.X.(*ast.SelectorExpr); ok {
					if f, ok := w.agentField(inner); ok {
						w.locks = append(w.locks, gLock{f, x.Pos()})
					}
				}
			}
			for _, to := range w.callees(x) {
				w.edges = append(w.edges, gEdge{w.cur, region, to})
			}
			if lit, ok := x.Fun.(*ast.FuncLit); ok { // immediately invoked (also `defer func(){…}()`)
				w.walk(lit.Body, region, false)
			} else {
				ast.Inspect(x.Fun, visit)
			}
			for _, a := range x.Args {
				if lit, ok := a.(*ast.FuncLit); ok {
					r := region // a closure handed to a callee is assumed to be called synchronously
					if special != gInherit {
						r = special
					}
					w.walk(lit.Body, r, false)
					continue
				}
				if special != gInherit { // function / method VALUE handed to New / AfterFunc / CloseWithPreStop
					var id *ast.Ident
					switch v := a.(type) {
					case *ast.Ident:
						id = v
					case *ast.SelectorExpr:
						id = v.Sel
					}
					if id != nil {
						if fn, ok := w.info.Uses[id].(*types.Func); ok {
							if to, ok := w.names[fn]; ok {
								w.edges = append(w.edges, gEdge{w.cur, special, to})
							}
						}
					}
				}
				ast.Inspect(a, visit)
			}
			return false
		case *ast.FuncLit:
			w.unknown++
			w.walk(x.Body, gUnknown, false)
			return false
		case *ast.SelectorExpr:
			if !written[x] {
				w.record(x, "r", region)
			}
			// a method value that is not called here (stored / passed on): conservatively an edge in
			// the current region
			if fn, ok := w.info.Uses[x.Sel].(*types.Func); ok {
				if to, ok := w.names[fn]; ok {
					w.edges = append(w.edges, gEdge{w.cur, region, to})
				}
			}
		}
		return true
	}
	ast.Inspect(n, visit)
}

func gPublicRecv(fn *types.Func, pkg *types.Package) bool {
	sig := fn.Type().(*types.Signature)
	if sig.Recv() == nil {
		return true
	}
	t := sig.Recv().Type()
	if p, ok := t.(*types.Pointer); ok {
		t = p.Elem()
	}
	n, ok := t.(*types.Named)
	if !ok {
		return true
	}
	if n.Obj().Exported() {
		return true
	}
	seen := map[*types.Named]bool{}
	var embeddedIn func(inner *types.Named) bool
	embeddedIn = func(inner *types.Named) bool {
		if seen[inner] {
			return false
		}
		seen[inner] = true
		for _, name := range pkg.Scope().Names() {
			tn, ok := pkg.Scope().Lookup(name).(*types.TypeName)
			if !ok {
				continue
			}
			outer, ok := tn.Type().(*types.Named)
			if !ok {
				continue
			}
			st, ok := outer.Underlying().(*types.Struct)
			if !ok {
				continue
			}
			for i := 0; i < st.NumFields(); i++ {
				f := st.Field(i)
				if !f.Embedded() {
					continue
				}
				ft := f.Type()
				if p, ok := ft.(*types.Pointer); ok {
					ft = p.Elem()
				}
				if ft == types.Type(inner) && (outer.Obj().Exported() || embeddedIn(outer)) {
					return true
				}
			}
		}
		return false
	}
	return embeddedIn(n)
}

var gCtorRoots = map[string]bool{"NewAgent": true, "NewAgentWithOptions": true, "newAgentFromConfig": true}

func gAnalyse() *gResult {
	res := &gResult{flagged: map[string]token.Position{}, classes: map[string]string{}}
	repo := vRepoDir()
	fset := token.NewFileSet()
	ents, err := os.ReadDir(repo)
	if err != nil {
		res.err = "error:readdir"
		return res
	}
	var files []*ast.File
	for _, e := range ents {
		n := e.Name()
		if !strings.HasSuffix(n, ".go") || strings.HasSuffix(n, "_test.go") || strings.HasPrefix(n, "zz_verif") {
			continue
		}
		f, err := parser.ParseFile(fset, filepath.Join(repo, n), nil, parser.SkipObjectResolution)
		if err != nil {
			res.err = "error:parse:" + n
			return res
		}
		if f.Name.Name != "ice" {
			continue
		}
		files = append(files, f)
	}
	info := &types.Info{Selections: map[*ast.SelectorExpr]*types.Selection{}, Uses: map[*ast.Ident]types.Object{}, Defs: map[*ast.Ident]types.Object{}}
	conf := types.Config{Importer: &vFakeImporter{pkgs: map[string]*types.Package{}}, Error: func(error) {}}
	pkg, _ := conf.Check("github.com/pion/ice/v4", fset, files, info)
	if pkg == nil || pkg.Scope().Lookup("Agent") == nil {
		res.err = "error:no-Agent-type"
		return res
	}
	agent, ok := pkg.Scope().Lookup("Agent").Type().(*types.Named)
	if !ok {
		res.err = "error:Agent-not-named"
		return res
	}
	st, ok := agent.Underlying().(*types.Struct)
	if !ok {
		res.err = "error:Agent-not-struct"
		return res
	}
	w := &gWalker{fset: fset, info: info, agentFields: map[*types.Var]string{}, names: map[*types.Func]string{}, methodsByName: map[string][]*types.Func{}}
	fieldType := map[string]string{}
	for i := 0; i < st.NumFields(); i++ {
		w.agentFields[st.Field(i)] = st.Field(i).Name()
	}
	// field types as written in the source (imports are fake, so types.Type strings are useless)
	for _, f := range files {
		for _, d := range f.Decls {
			gd, ok := d.(*ast.GenDecl)
			if !ok {
				continue
			}
			for _, sp := range gd.Specs {
				ts, ok := sp.(*ast.TypeSpec)
				if !ok || ts.Name.Name != "Agent" {
					continue
				}
				if stt, ok := ts.Type.(*ast.StructType); ok {
					for _, fl := range stt.Fields.List {
						for _, nm := range fl.Names {
							fieldType[nm.Name] = gSelName(fl.Type)
						}
					}
				}
			}
		}
	}
	type fdecl struct {
		decl *ast.FuncDecl
		name string
		fn   *types.Func
	}
	var decls []fdecl
	for _, f := range files {
		for _, d := range f.Decls {
			fd, ok := d.(*ast.FuncDecl)
			if !ok || fd.Body == nil {
				continue
			}
			fn, ok := info.Defs[fd.Name].(*types.Func)
			if !ok {
				continue
			}
			name := fd.Name.Name
			if fd.Recv != nil && len(fd.Recv.List) > 0 {
				t := fd.Recv.List[0].Type
				if s, ok := t.(*ast.StarExpr); ok {
					t = s.X
				}
				if id, ok := t.(*ast.Ident); ok {
					name = id.Name + "." + name
				}
				w.methodsByName[fd.Name.Name] = append(w.methodsByName[fd.Name.Name], fn)
			}
			w.names[fn] = name
			decls = append(decls, fdecl{fd, name, fn})
		}
	}
	res.nFuncs = len(decls)
	ctx := map[string]int{}
	for _, d := range decls {
		w.cur = d.name
		w.locks = nil
		isOption := false
		if d.decl.Recv == nil && d.decl.Type.Results != nil && len(d.decl.Type.Results.List) == 1 {
			if id, ok := d.decl.Type.Results.List[0].Type.(*ast.Ident); ok && id.Name == "AgentOption" {
				isOption = true
			}
		}
		w.walk(d.decl.Body, gInherit, isOption)
		switch {
		case gCtorRoots[d.name]:
			ctx[d.name] |= gCtor
		case ast.IsExported(d.decl.Name.Name) && gPublicRecv(d.fn, pkg):
			ctx[d.name] |= gOff
		}
	}
	eff := func(r gRegion, fn string) int {
		switch r {
		case gInTask:
			return gTask
		case gInOff:
			return gOff
		case gInCtor:
			return gCtor
		case gInCtorOrTask:
			return gCtor | gTask
		case gInherit:
			return ctx[fn]
		}
		return 0
	}
	for changed := true; changed; {
		changed = false
		for _, e := range w.edges {
			add := eff(e.region, e.from)
			if gCtorRoots[e.to] {
				continue
			}
			if ctx[e.to]|add != ctx[e.to] {
				ctx[e.to] |= add
				changed = true
			}
		}
	}
	for _, c := range ctx {
		if c&gOff != 0 {
			res.offFuncs++
		}
	}
	res.unknown = w.unknown
	res.nAccess = len(w.accesses)
	// field classes
	writers := map[string]map[string]bool{}
	unguarded := map[string]bool{}
	guardMu := map[string]map[string]bool{}
	for _, a := range w.accesses {
		c := eff(a.region, a.fn)
		if c&(gTask|gOff) == 0 {
			continue // constructor only (or unknown closure)
		}
		if a.guarded == "" {
			unguarded[a.field] = true
		} else {
			if guardMu[a.field] == nil {
				guardMu[a.field] = map[string]bool{}
			}
			guardMu[a.field][a.guarded] = true
		}
		if a.rw == "w" {
			if writers[a.field] == nil {
				writers[a.field] = map[string]bool{}
			}
			if c&gTask != 0 {
				writers[a.field]["task"] = true
			}
			if c&gOff != 0 {
				writers[a.field]["off"] = true
			}
		}
	}
	for _, name := range w.agentFields {
		t := fieldType[name]
		switch {
		case strings.HasPrefix(t, "atomic.") || strings.HasPrefix(t, "sync."):
			res.classes[name] = "sync:" + t
		case len(writers[name]) == 0:
			res.classes[name] = "immutable"
		case !unguarded[name] && len(guardMu[name]) == 1:
			for mu := range guardMu[name] {
				res.classes[name] = "guarded:" + mu
			}
		default:
			var ws []string
			for k := range writers[name] {
				ws = append(ws, k)
			}
			sort.Strings(ws)
			res.classes[name] = "mutable:" + strings.Join(ws, "+")
		}
	}
	for _, a := range w.accesses {
		if eff(a.region, a.fn)&gOff == 0 {
			continue
		}
		fn := a.fn
		if a.region == gInOff {
			fn += "·go"
		}
		k := fmt.Sprintf("%s %s %s", fn, a.field, a.rw)
		if _, ok := res.flagged[k]; !ok {
			res.flagged[k] = a.pos
			res.order = append(res.order, k)
		}
	}
	sort.Strings(res.order)
	seen := map[string]bool{}
	for _, k := range res.order {
		f := strings.Split(k, " ")[1]
		if !seen[f] {
			seen[f] = true
			res.fields = append(res.fields, f)
		}
	}
	sort.Strings(res.fields)
	return res
}

func gGet() *gResult {
	gOnce.Do(func() { gRes = gAnalyse() })
	return gRes
}

func vGuardGen(o *vOut, emit func(string)) {
	res := gGet()
	if res.err != "" {
		o.line("taskloop guard ? ? r", res.err)
		return
	}
	o.statN("guard.functions", res.nFuncs)
	o.statN("guard.functions-with-off-loop-context", res.offFuncs)
	o.statN("guard.agent-field-accesses", res.nAccess)
	o.statN("guard.off-loop-accesses", len(res.order))
	o.statN("guard.closures-with-unknown-context(not analysed)", res.unknown)
	for _, f := range res.fields {
		emit("taskloop fieldclass " + f)
		o.stat("guard.class." + strings.SplitN(res.classes[f], ":", 2)[0])
	}
	for _, k := range res.order {
		emit("taskloop guard " + k)
	}
}

func vGuardExec(fn, field, rw string) string {
	res := gGet()
	if res.err != "" {
		return res.err
	}
	if _, ok := res.flagged[fn+" "+field+" "+rw]; ok {
		return "outside"
	}
	return "inside"
}

func vFieldClassExec(field string) string {
	res := gGet()
	if res.err != "" {
		return res.err
	}
	if c, ok := res.classes[field]; ok {
		return c
	}
	return "unknown-field"
}
