//go:build verif

package taskloop

// Component "taskloop" of the /verif harness (property C10, tie A of DESIGN.md §3.4).
//
//	taskloop hist <meta> <events…>   -> "recorded"    one recorded history of the REAL Loop
//	taskloop skel <func>             -> normalised source text of the function (change detector)
//	taskloop guard <func> <field> <r|w> / taskloop fieldclass <field>   (see zz_verif_guard_test.go)
//
// A history is recorded by running the real Loop with N concurrent submitters (contexts cancelled at
// random moments, pre-cancelled, or the loop itself as context — what agent.go does), concurrent
// Close / CloseWithPreStop callers and tasks of random duration (instant, yielding, blocked until
// released, blocked until released or ctx.Done, spawning another Run from a new goroutine without
// waiting, and waiting for a Run made from inside the task = re-entrant Run). Every call, return,
// task start, task end, onClose and preStop is stamped from ONE atomic counter; stamps taken before
// an action (submit, cancel, close call, task end) and after it (returns, task start) are chosen so
// that the stamped order is a legal linearisation for the model (see notes/C10.md).
//
// Event tokens: s<i> submit; n<p>.<i> submit of call i made from inside task p, which waits for it;
// x<i> cancel ctx_i; b<i> task begins; e<i> task ends; r<i>:n|c|k|? Run returns nil / ctx error /
// ErrClosed / something else; c<j>:0|1 Close / CloseWithPreStop(f) called; p preStop runs; o onClose
// starts; O onClose returns; d<j> close call returns.

import (
	"context"
	"errors"
	"fmt"
	"go/ast"
	"go/parser"
	"go/scanner"
	"go/token"
	"os"
	"path/filepath"
	"runtime"
	"strings"
	"sync"
	"sync/atomic"
	"testing"
	"testing/synctest"
	"time"
)

func init() { vComponents["taskloop"] = &vComp{gen: vTaskloopGen, exec: vTaskloopExec} }

func vRepoDir() string {
	if d := os.Getenv("VERIF_REPO"); d != "" {
		return d
	}
	return "/repo"
}

// ---------------------------------------------------------------------------------------------
// recorder
// ---------------------------------------------------------------------------------------------

type vRecorder struct {
	ctr atomic.Int64
	evs []string
}

func newVRecorder() *vRecorder { return &vRecorder{evs: make([]string, 4096)} }

func (r *vRecorder) ev(tok string) {
	n := r.ctr.Add(1) - 1
	if int(n) < len(r.evs) {
		r.evs[n] = tok
	}
}

func (r *vRecorder) history() []string {
	n := int(r.ctr.Load())
	if n > len(r.evs) {
		n = len(r.evs)
	}
	return r.evs[:n]
}

const (
	vCtxBackground = iota // context.Background()
	vCtxCancel            // cancelled by a helper goroutine after cancelDelay
	vCtxPre               // cancelled before Run is called
	vCtxLoop              // the Loop itself is the context (agent.go: a.loop.Run(a.loop, …))
)

const (
	vTaskInstant  = iota
	vTaskYield    // pauses for dur units
	vTaskBlockRel // blocks until released by the janitor / a releaser
	vTaskBlockCtx // blocks until released or ctx.Done() (ctx = the loop: "blocking tasks must be cancelable")
	vTaskSpawn    // starts another goroutine that calls Run; does not wait for it
	vTaskNested   // calls Run from inside the task (through a goroutine it waits for): re-entrant Run
)

type vSubSpec struct {
	id          int
	ctxKind     int
	startDelay  int
	cancelDelay int
	task        int
	dur         int
	relDelay    int // vTaskBlock*: released after relDelay units (by its own releaser goroutine)
	child       *vSubSpec
}

type vCloseSpec struct {
	id    int
	delay int
	pre   bool
}

type vScenario struct {
	subs    []*vSubSpec
	closers []vCloseSpec
	nSub    int // including children
	sync    bool
	horizon int
	// duration of the onClose callback
	onCloseDur int
}

func vClassify(err error) string {
	switch {
	case err == nil:
		return "n"
	case errors.Is(err, ErrClosed):
		return "k"
	case errors.Is(err, context.Canceled), errors.Is(err, context.DeadlineExceeded):
		return "c"
	}
	return "?"
}

// vRunScenario runs one scenario against the real Loop and returns the recorded history.
func vRunScenario(sc *vScenario) (hist []string, hung bool, panicked string) {
	rec := newVRecorder()
	body := func() {
		pause := func(n int) {
			if n <= 0 {
				return
			}
			if sc.sync {
				time.Sleep(time.Duration(n) * time.Microsecond) // virtual time inside the bubble
				return
			}
			for i := 0; i < n; i++ {
				runtime.Gosched()
			}
		}
		var wg sync.WaitGroup
		wg.Add(1) // the onClose callback itself (it must have finished before the history is complete)
		var onCloseOnce sync.Once
		loop := New(func() {
			rec.ev("o")
			// a Close that returned before onClose has FINISHED would show up here. Yields, not a virtual
			// sleep: a goroutine blocked on a sync.Mutex (sync.Once) is not "durably blocked" for
			// synctest, so a callback that sleeps while others wait in Once.Do would stop the fake clock.
			for k := 0; k < sc.onCloseDur; k++ {
				runtime.Gosched()
			}
			rec.ev("O")
			onCloseOnce.Do(wg.Done)
		})
		var cancels sync.Map // id -> func()
		rels := make([]chan struct{}, sc.nSub)
		relOnce := make([]sync.Once, sc.nSub)
		for i := range rels {
			rels[i] = make(chan struct{})
		}
		release := func(i int) { relOnce[i].Do(func() { close(rels[i]) }) }

		var runSub func(sp *vSubSpec, parent int)
		runSub = func(sp *vSubSpec, parent int) {
			defer wg.Done()
			i := sp.id
			pause(sp.startDelay)
			var ctx context.Context = context.Background()
			switch sp.ctxKind {
			case vCtxCancel, vCtxPre:
				c, cancel := context.WithCancel(context.Background())
				ctx = c
				var once sync.Once
				doCancel := func() {
					once.Do(func() {
						rec.ev(fmt.Sprintf("x%d", i))
						cancel()
					})
				}
				cancels.Store(i, doCancel)
				if sp.ctxKind == vCtxPre {
					doCancel()
				} else {
					wg.Add(1)
					go func() {
						defer wg.Done()
						pause(sp.cancelDelay)
						doCancel()
					}()
				}
			case vCtxLoop:
				ctx = loop
			}
			task := func(tctx context.Context) {
				rec.ev(fmt.Sprintf("b%d", i))
				switch sp.task {
				case vTaskYield:
					pause(sp.dur)
				case vTaskBlockRel:
					<-rels[i]
				case vTaskBlockCtx:
					select {
					case <-rels[i]:
					case <-tctx.Done():
					}
				case vTaskSpawn:
					wg.Add(1)
					go runSub(sp.child, -1)
					pause(sp.dur)
				case vTaskNested:
					done := make(chan struct{})
					wg.Add(1)
					go func() {
						runSub(sp.child, i)
						close(done)
					}()
					<-done
				}
				rec.ev(fmt.Sprintf("e%d", i))
			}
			if sp.task == vTaskBlockRel || sp.task == vTaskBlockCtx {
				wg.Add(1)
				go func() {
					defer wg.Done()
					pause(sp.relDelay)
					release(i)
				}()
			}
			if parent >= 0 {
				rec.ev(fmt.Sprintf("n%d.%d", parent, i))
			} else {
				rec.ev(fmt.Sprintf("s%d", i))
			}
			err := loop.Run(ctx, task)
			rec.ev(fmt.Sprintf("r%d:%s", i, vClassify(err)))
		}
		for _, sp := range sc.subs {
			wg.Add(1)
			go runSub(sp, -1)
		}
		closer := func(cs vCloseSpec) {
			defer wg.Done()
			pause(cs.delay)
			if cs.pre {
				rec.ev(fmt.Sprintf("c%d:1", cs.id))
				loop.CloseWithPreStop(func() { rec.ev("p") })
			} else {
				rec.ev(fmt.Sprintf("c%d:0", cs.id))
				loop.Close()
			}
			rec.ev(fmt.Sprintf("d%d", cs.id))
		}
		for _, cs := range sc.closers {
			wg.Add(1)
			go closer(cs)
		}
		// janitor: guarantees termination — releases every blocked task, cancels every context, then
		// makes one last (recorded) Close so that the loop goroutine ends.
		wg.Add(1)
		go func() {
			defer wg.Done()
			if sc.sync {
				time.Sleep(time.Duration(sc.horizon) * time.Microsecond)
			} else {
				time.Sleep(time.Duration(100+sc.horizon) * time.Microsecond)
			}
			for i := range rels {
				release(i)
			}
			cancels.Range(func(_, f any) bool { f.(func())(); return true })
			wg.Add(1)
			closer(vCloseSpec{id: len(sc.closers), delay: 0, pre: false})
		}()
		if sc.sync {
			wg.Wait()
			return
		}
		fin := make(chan struct{})
		go func() { wg.Wait(); close(fin) }()
		select {
		case <-fin:
		case <-time.After(20 * time.Second):
			hung = true
		}
	}
	// The scenario runs in its own goroutine so that a panic (synctest: "deadlock: all goroutines in
	// bubble are blocked") or a bubble whose fake clock cannot advance is reported, not fatal.
	fin := make(chan struct{})
	go func() {
		defer close(fin)
		defer func() {
			if p := recover(); p != nil {
				panicked = strings.NewReplacer("\t", " ", "\n", " ").Replace(fmt.Sprint(p))
			}
		}()
		if sc.sync {
			synctest.Test(vT, func(*testing.T) { body() })
		} else {
			body()
		}
	}()
	select {
	case <-fin:
	case <-time.After(40 * time.Second):
		return append([]string(nil), rec.history()...), true, ""
	}
	return append([]string(nil), rec.history()...), hung, panicked
}

// ---------------------------------------------------------------------------------------------
// scenario generator
// ---------------------------------------------------------------------------------------------

func vGenScenario(r *vRand, thorough bool, syncMode bool) *vScenario {
	sc := &vScenario{sync: syncMode}
	maxSub := 6
	if thorough {
		maxSub = 9
	}
	n := 1 + r.intn(maxSub)
	if r.chance(1, 12) {
		n = 0
	}
	span := 1 + r.intn(40) // delays are drawn from [0, span): small span = everything at once
	next := n
	mk := func(id int, allowChild bool) *vSubSpec {
		sp := &vSubSpec{id: id, startDelay: r.intn(span), cancelDelay: r.intn(span), dur: r.intn(6), relDelay: r.intn(span)}
		switch r.intn(10) {
		case 0, 1, 2:
			sp.ctxKind = vCtxBackground
		case 3, 4, 5, 6:
			sp.ctxKind = vCtxCancel
		case 7:
			sp.ctxKind = vCtxPre
		default:
			sp.ctxKind = vCtxLoop
		}
		switch k := r.intn(16); {
		case k < 5:
			sp.task = vTaskInstant
		case k < 9:
			sp.task = vTaskYield
		case k < 11:
			sp.task = vTaskBlockRel
		case k < 13:
			sp.task = vTaskBlockCtx
		case k < 14 && allowChild:
			sp.task = vTaskSpawn
		case allowChild:
			sp.task = vTaskNested
		default:
			sp.task = vTaskYield
		}
		return sp
	}
	for i := 0; i < n; i++ {
		sp := mk(i, true)
		if sp.task == vTaskSpawn || sp.task == vTaskNested {
			sp.child = mk(next, false)
			sp.child.startDelay = r.intn(3)
			if sp.task == vTaskNested && sp.child.ctxKind == vCtxBackground && r.chance(1, 2) {
				sp.child.ctxKind = vCtxCancel // resolved by its own cancellation rather than by the janitor
			}
			next++
		}
		sc.subs = append(sc.subs, sp)
	}
	sc.nSub = next
	m := 0
	switch k := r.intn(10); {
	case k < 3:
		m = 0
	case k < 6:
		m = 1
	case k < 9:
		m = 2
	default:
		m = 3
	}
	for j := 0; j < m; j++ {
		d := 0
		switch r.intn(4) {
		case 0: // immediately
		case 1:
			d = r.intn(span + 4)
		default: // in the second half: most submitters are in flight
			d = span/2 + r.intn(span+4)
		}
		sc.closers = append(sc.closers, vCloseSpec{id: j, delay: d, pre: r.chance(1, 2)})
	}
	sc.horizon = span + 20
	sc.onCloseDur = r.intn(4)
	return sc
}

// ---------------------------------------------------------------------------------------------
// source shape (change detector for taskloop.go)
// ---------------------------------------------------------------------------------------------

var vSkelFuncs = []string{"New", "runLoop", "Close", "CloseWithPreStop", "Run", "Err", "Done"}

// vSkel returns the tokens of the function's declaration, comments dropped, joined by single spaces.
func vSkel(name string) string {
	path := filepath.Join(vRepoDir(), "internal", "taskloop", "taskloop.go")
	src, err := os.ReadFile(path)
	if err != nil {
		return "error:read"
	}
	fset := token.NewFileSet()
	f, err := parser.ParseFile(fset, path, src, 0)
	if err != nil {
		return "error:parse"
	}
	for _, d := range f.Decls {
		fd, isFn := d.(*ast.FuncDecl)
		if !isFn || fd.Name.Name != name {
			continue
		}
		lo, hi := fset.Position(fd.Pos()).Offset, fset.Position(fd.End()).Offset
		var s scanner.Scanner
		sub := src[lo:hi]
		fs2 := token.NewFileSet()
		s.Init(fs2.AddFile("", fs2.Base(), len(sub)), sub, nil, 0)
		var toks []string
		for {
			_, tok, lit := s.Scan()
			if tok == token.EOF {
				break
			}
			if tok == token.SEMICOLON && lit == "\n" {
				toks = append(toks, ";")
				continue
			}
			if lit != "" {
				toks = append(toks, lit)
			} else {
				toks = append(toks, tok.String())
			}
		}
		return strings.Join(toks, " ")
	}
	return "error:missing"
}

// ---------------------------------------------------------------------------------------------
// component
// ---------------------------------------------------------------------------------------------

func vTaskloopExec(o *vOut, t []string) string {
	if len(t) < 2 {
		return "bad-op"
	}
	switch t[1] {
	case "hist":
		// A recorded history cannot be re-executed (the schedule is not reproducible); a replay
		// re-checks the recorded events against the monitor and the model.
		return "recorded"
	case "skel":
		if len(t) != 3 {
			return "bad-op"
		}
		return vSkel(t[2])
	case "guard":
		if len(t) != 5 {
			return "bad-op"
		}
		return vGuardExec(t[2], t[3], t[4])
	case "fieldclass":
		if len(t) != 3 {
			return "bad-op"
		}
		return vFieldClassExec(t[2])
	}
	return "bad-op"
}

func vHistStats(o *vOut, sc *vScenario, gmp int, hist []string) {
	mode := "real"
	if sc.sync {
		mode = "sync"
	}
	o.stat("hist.mode." + mode)
	o.stat(fmt.Sprintf("hist.gomaxprocs.%d", gmp))
	o.stat(fmt.Sprintf("hist.submitters.%d", sc.nSub))
	o.stat(fmt.Sprintf("hist.closers.%d", len(sc.closers)+1))
	cancels, closeCalled, startAfterCloseCall, runAfterCloseRet := 0, false, false, false
	closeRet := false
	for _, e := range hist {
		switch e[0] {
		case 'x':
			cancels++
		case 'c':
			closeCalled = true
		case 'd':
			closeRet = true
		case 'b':
			if closeCalled {
				startAfterCloseCall = true
			}
		case 's':
			if closeRet {
				runAfterCloseRet = true
			}
		case 'n':
			o.stat("hist.reentrant-run")
		case 'r':
			o.stat("run.exit." + e[strings.IndexByte(e, ':')+1:])
		case 'p':
			o.stat("hist.prestop")
		}
	}
	if cancels > 4 {
		cancels = 4
	}
	o.stat(fmt.Sprintf("hist.cancels.%d", cancels))
	if startAfterCloseCall {
		o.stat("hist.task-started-after-a-close-call")
	}
	if runAfterCloseRet {
		o.stat("hist.run-called-after-a-close-returned")
	}
	for _, sp := range sc.subs {
		o.stat(fmt.Sprintf("task.kind.%d", sp.task))
		o.stat(fmt.Sprintf("ctx.kind.%d", sp.ctxKind))
	}
	o.statN("hist.events", len(hist))
}

func vTaskloopGen(o *vOut, r *vRand, thorough bool, args []string, emit func(string)) {
	// 1. source shape
	for _, f := range vSkelFuncs {
		emit("taskloop skel " + f)
	}
	// 2. API guard table
	vGuardGen(o, emit)
	// 3. histories
	nHist := 600
	if thorough {
		nHist = 30000
	}
	for _, a := range args {
		if strings.HasPrefix(a, "hist=") {
			fmt.Sscanf(a, "hist=%d", &nHist)
		}
	}
	gmps := []int{1, 2, 4, 16}
	old := runtime.GOMAXPROCS(0)
	defer runtime.GOMAXPROCS(old)
	gmp := old
	for h := 0; h < nHist; h++ {
		if h%25 == 0 {
			gmp = gmps[(h/25)%len(gmps)]
			runtime.GOMAXPROCS(gmp)
		}
		syncMode := h%2 == 0
		sc := vGenScenario(r.fork(), thorough, syncMode)
		hist, hung, panicked := vRunScenario(sc)
		mode := "real"
		if syncMode {
			mode = "sync"
		}
		status := "complete"
		if hung {
			status = "hung"
		} else if panicked != "" {
			status = "panicked"
		}
		vHistStats(o, sc, gmp, hist)
		meta := fmt.Sprintf("%s.gmp%d.n%d.m%d.%s", mode, gmp, sc.nSub, len(sc.closers)+1, status)
		op := "taskloop hist " + meta
		if len(hist) > 0 {
			op += " " + strings.Join(hist, " ")
		}
		if hung {
			o.line(op, "hung")
			continue
		}
		if panicked != "" {
			o.line(op, "PANIC "+panicked)
			o.stat("hist.panicked")
			continue
		}
		emit(op)
	}
}
